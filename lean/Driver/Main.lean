/-
  Driver — line-protocol driver (DESIGN §5.3, Appendix A).

  Reads a trace written by the Rust harness (`op` lines followed by the real code's `r` result
  line and `d` dump lines), replays every `op` through the model, compares the model's lines with
  the real ones, and evaluates the compiled invariant `Inv` on every *real* dump.

  Output:  `M <line> …`  model/implementation disagreement
           `X <line> …`  an oracle (Inv on the real dump, …) fails on the implementation
           `S …`         summary
-/
import BroodModel.Dump
import BroodModel.Query
import BroodModel.Spec
import BroodModel.Serde
import BroodModel.Sched
import BroodModel.SchedSpec
import BroodModel.Generated.Tables
import BroodModel.Ctor
import BroodModel.Programs
import BroodModel.Fault
import BroodModel.Churn

open Brood

structure St where
  n : Nat := 0
  kinds : Kinds := ⟨[], []⟩
  worlds : List (Option World) := [none, none, none, none]
  next : Nat := 0
  caseName : String := ""
  expected : List String := []
  lineNo : Nat := 0
  ops : Nat := 0
  mismatches : Nat := 0
  oracleFails : Nat := 0
  realDumps : Nat := 0
  diverged : Bool := false
  /-- L0 reference map per world slot, driven by the *real* results -/
  specs : List (Option Spec) := [none, none, none, none]
  /-- the op whose real result line is awaited: world, name, args -/
  pending : Option (Nat × String × List String) := none
  emit : Bool := false

def parseNats (s : String) : Option (List Nat) :=
  if s == "-" then some [] else (s.splitOn ",").mapM String.toNat?

def parseIdent (s : String) : Option Ident := parseIdentDot s

def parseRows (s : String) : Option (List (List Nat)) :=
  if s == "-" then some [] else (s.splitOn "/").mapM parseNats

def parseMasks (s : String) : Option (List Mask) :=
  if s == "-" then some [] else (s.splitOn ",").mapM parseMask

/-- `<pos><r|m>,…` → (position, mutable?) -/
def parseResViews (s : String) : Option (List (Nat × Bool)) :=
  if s == "-" then some [] else
  (s.splitOn ",").mapM (fun t =>
    let m := t.endsWith "m"
    if !(m || t.endsWith "r") then none else
    ((t.dropEnd 1).toString.toNat?).map (fun p => (p, m)))

/-- `S:views:filter:res:entry` -/
def parseTask (s : String) : Option Task :=
  match s.splitOn ":" with
  | [_kind, vS, fS, rS, eS] => do
    let vs ← parseViews vS
    let f ← parseFilter fS
    let rs ← parseResViews rS
    let es ← parseViews eS
    some ⟨vs, f, es, rs⟩
  | _ => none

def groupsStr (g : List (List Nat)) : String :=
  if g.isEmpty then "-" else
  String.intercalate "/" (g.map (fun p => String.intercalate "." ((sortNats p).map toString)))

/-- Model answer for a `sched` op: static stages and run-time phases, as groups of task indices. -/
def schedAnswer (n nres : Nat) (masks : List Mask) (tasks : List Task) : String :=
  let sts := stages Generated.verifierTable Generated.mergerTable tasks
  let sizes := sts.map List.length
  let offsets := sizes.foldl (fun (acc : List Nat × Nat) k => (acc.1 ++ [acc.2], acc.2 + k)) ([], 0)
  let stageGroups := (List.zip offsets.1 sizes).map (fun p => (List.range p.2).map (p.1 + ·))
  let ph := phases Generated.claimTryMerge n nres masks sts
  let phaseGroups := (ph.map (fun p => p.map (fun q => offsets.1.getD q.1 0 + q.2))).filter (fun p => !p.isEmpty)
  s!"ok stages={groupsStr stageGroups} phases={groupsStr phaseGroups}"

def St.getW (st : St) (i : Nat) : Option World := (st.worlds.getD i none)

def St.setW (st : St) (i : Nat) (w : Option World) : St :=
  let st := { st with worlds := st.worlds.set i w }
  match w with
  | some w => { st with next := max st.next w.next }
  | none => st

def identsStr (l : List Ident) : String :=
  String.intercalate "," (l.map (fun i => s!"{i.index}.{i.gen}"))

def ubStr (e : UB) : String := s!"UB {repr e}"

/-- A value of component `c`; zero-sized kinds carry no identity (always `0`). -/
def mkVal (k : Kinds) (c i : Nat) : Val := if k.kindOf c == 'z' then ⟨c, 0⟩ else ⟨c, i⟩

def mkVals (k : Kinds) (shape : List Nat) (ids : List Nat) : List Val :=
  List.zipWith (mkVal k) shape ids

/-- `a:c:v,d:c:0,…`: the steps of a `chain` op (several entry operations through one handle). -/
def parseChain (s : String) : Option (List (Char × Nat × Nat)) :=
  (s.splitOn ",").mapM (fun t =>
    match t.splitOn ":" with
    | [kS, cS, vS] =>
      match kS.toList, cS.toNat?, vS.toNat? with
      | [ch], some c, some v => some (ch, c, v)
      | _, _, _ => none
    | _ => none)

/-- The model has no handle: a chain is the sequence of its steps. -/
def chainRun (k : Kinds) (id : Ident) :
    World → List (Char × Nat × Nat) → List Val → List String → Out (World × List Val × List String)
  | w, [], drops, reads => .ok (w, drops, reads)
  | w, (ch, c, v) :: rest, drops, reads =>
    if ch == 'a' then
      match w.entryAdd id c (mkVal k c v) with
      | .ok (w', d) => chainRun k id w' rest (drops ++ d.getD []) reads
      | .ub e => .ub e
    else if ch == 'd' then
      match w.entryRemove id c with
      | .ok (w', d) => chainRun k id w' rest (drops ++ d.getD []) reads
      | .ub e => .ub e
    else if ch == 'w' then
      match w.write id c (mkVal k c v) with
      | .ok (w', d) => chainRun k id w' rest (drops ++ d.getD []) reads
      | .ub e => .ub e
    else
      match w.entryQuery id [.oref c] .none with
      | .ok (some [.val x]) => chainRun k id w rest drops (reads ++ [valStr k x])
      | .ok _ => chainRun k id w rest drops (reads ++ ["n"])
      | .ub e => .ub e

/-- Run one op on the model.  Returns the new state and the result text (without the `r `). -/
def runOp (st : St) (wi : Nat) (name : String) (args : List String) : St × String :=
  let k := st.kinds
  let bad := (st, "bad-op")
  let withW (f : World → St × String) : St × String :=
    match st.getW wi with
    | some w => f { w with next := st.next }
    | none => (st, "no-world")
  match name, args with
  | "new", [resIds] =>
    match parseNats resIds with
    | none => bad
    | some ids =>
      let res := List.zipWith (fun p i => mkVal k (resTy p) i) (List.range ids.length) ids
      let drops := match st.getW wi with | some w => w.values | none => []
      (st.setW wi (some { World.init st.n res with next := st.next }), s!"ok drops={dropsStr k drops}")
  | "insert", [shapeS, idsS] =>
    match parseNats shapeS, parseNats idsS with
    | some shape, some ids =>
      if !World.shapeOk st.n shape (mkVals k shape ids) || shape.length ≠ ids.length then bad else
      withW fun w =>
        match w.insert shape (mkVals k shape ids) with
        | .ok (w', id) => (st.setW wi (some w'), s!"ok id={id.index}.{id.gen}")
        | .ub e => (st, ubStr e)
    | _, _ => bad
  | "extend", [shapeS, rowsS] =>
    match parseNats shapeS, parseRows rowsS with
    | some shape, some rows =>
      if rows.any (fun r => !World.shapeOk st.n shape (mkVals k shape r) || r.length ≠ shape.length)
        || !(shape.Nodup && shape.all (· < st.n)) then bad else
      withW fun w =>
        match w.extend shape (rows.map (mkVals k shape)) with
        | .ok (w', ids) => (st.setW wi (some w'), s!"ok ids={identsStr ids}")
        | .ub e => (st, ubStr e)
    | _, _ => bad
  | "remove", [idS] =>
    match parseIdent idS with
    | none => bad
    | some id =>
      withW fun w =>
        match w.remove id with
        | .ok (w', drops) => (st.setW wi (some w'), s!"ok drops={dropsStr k drops}")
        | .ub e => (st, ubStr e)
  | "clear", [orderS] =>
    match parseMasks orderS with
    | none => bad
    | some order =>
      withW fun w =>
        match w.clear order with
        | .ok (w', drops) => (st.setW wi (some w'), s!"ok drops={dropsStr k drops}")
        | .ub e => (st, ubStr e)
  | "add", [idS, cS, vS] =>
    match parseIdent idS, cS.toNat?, vS.toNat? with
    | some id, some c, some v =>
      if c ≥ st.n then bad else
      withW fun w =>
        match w.entryAdd id c (mkVal k c v) with
        | .ok (w', some drops) => (st.setW wi (some w'), s!"ok drops={dropsStr k drops}")
        | .ok (_, none) => (st, "none")
        | .ub e => (st, ubStr e)
    | _, _, _ => bad
  | "del", [idS, cS] =>
    match parseIdent idS, cS.toNat? with
    | some id, some c =>
      if c ≥ st.n then bad else
      withW fun w =>
        match w.entryRemove id c with
        | .ok (w', some drops) => (st.setW wi (some w'), s!"ok drops={dropsStr k drops}")
        | .ok (_, none) => (st, "none")
        | .ub e => (st, ubStr e)
    | _, _ => bad
  | "write", [idS, cS, vS] =>
    match parseIdent idS, cS.toNat?, vS.toNat? with
    | some id, some c, some v =>
      if c ≥ st.n then bad else
      withW fun w =>
        match w.write id c (mkVal k c v) with
        | .ok (w', some drops) => (st.setW wi (some w'), s!"ok drops={dropsStr k drops}")
        | .ok (_, none) => (st, "none")
        | .ub e => (st, ubStr e)
    | _, _, _ => bad
  | "chain", [idS, stepsS] =>
    match parseIdent idS, parseChain stepsS with
    | some id, some steps =>
      if steps.any (fun s => s.2.1 ≥ st.n) then bad else
      withW fun w =>
        if !(w.hasEntry id) then (st, "none") else
        match chainRun k id w steps [] [] with
        | .ok (w', drops, reads) =>
          (st.setW wi (some w'),
           s!"ok drops={dropsStr k drops} reads={if reads.isEmpty then "-" else String.intercalate "," reads}")
        | .ub e => (st, ubStr e)
    | _, _ => bad
  | "churn", [idS, nS] =>
    match parseIdent idS, nS.toNat? with
    | some id, some n =>
      withW fun w =>
        if !(w.hasEntry id) then (st, "none") else
        match w.churn n id with
        | .ok (w', last) => (st.setW wi (some w'), s!"ok id={last.index}.{last.gen}")
        | .ub e => (st, ubStr e)
    | _, _ => bad
  | "reserve", [shapeS, _n] =>
    match parseNats shapeS with
    | some shape =>
      if !(shape.Nodup && shape.all (· < st.n)) then bad else
      withW fun w =>
        match w.reserve shape with
        | .ok w' => (st.setW wi (some w'), "ok")
        | .ub e => (st, ubStr e)
    | none => bad
  | "shrink", [] =>
    withW fun w => (st.setW wi (some w.shrinkToFit), "ok")
  | "clone", [srcS, eS] =>
    match srcS.toNat?, eS.toNat? with
    | some src, some e =>
      match st.getW src with
      | none => (st, "no-world")
      | some s =>
        let drops := match st.getW wi with | some w => w.values | none => []
        match s.clone e st.next with
        | .ok c => (st.setW wi (some c), s!"ok drops={dropsStr k drops}")
        | .ub e => (st, ubStr e)
    | _, _ => bad
  | "clonefrom", [srcS, eS] =>
    match srcS.toNat?, eS.toNat? with
    | some src, some e =>
      match st.getW src with
      | none => (st, "no-world")
      | some s =>
        withW fun d =>
          match World.cloneFrom d s e with
          | .ok (d', drops) => (st.setW wi (some d'), s!"ok drops={dropsStr k drops}")
          | .ub e => (st, ubStr e)
    | _, _ => bad
  | "drop", [] =>
    match st.getW wi with
    | some w => ({ st with worlds := st.worlds.set wi none }, s!"ok drops={dropsStr k w.values}")
    | none => (st, "no-world")
  | "eq", [oS] =>
    match oS.toNat? with
    | some o =>
      match st.getW wi, st.getW o with
      | some a, some b =>
        match World.eqWorld a b, World.eqWorld b a with
        | .ok r, .ok r' => (st, s!"ok eq={if r then 1 else 0} rev={if r' then 1 else 0}")
        | .ub e, _ => (st, ubStr e)
        | _, .ub e => (st, ubStr e)
      | _, _ => (st, "no-world")
    | none => bad
  | "probe", [idS] =>
    match parseIdent idS with
    | some id =>
      withW fun w =>
        (st, s!"ok contains={if w.contains id then 1 else 0} entry={if w.hasEntry id then 1 else 0}")
    | none => bad
  | "len", [] =>
    withW fun w => (st, s!"ok len={w.len} empty={if w.isEmpty then 1 else 0}")
  | "sched", [descS, _e, _scripts] =>
    match (descS.splitOn "|").mapM parseTask with
    | some tasks => withW fun w => (st, schedAnswer st.n k.res.length (w.archs.map (·.mask)) tasks)
    | none => bad
  | "res", ["set", pS, vS] =>
    match pS.toNat?, vS.toNat? with
    | some p, some v =>
      withW fun w =>
        match w.res[p]? with
        | some old => (st.setW wi (some { w with res := w.res.set p (mkVal k (resTy p) v) }), s!"ok drops={dropsStr k [old]}")
        | none => (st, "bad-op")
    | _, _ => bad
  | "res", ["view", descS, eS] =>
    withW fun w =>
      match parseResViews descS with
      | none => (st, "bad-op")
      | some vs =>
        if vs.any (fun v => v.1 ≥ w.res.length) || !(vs.map (·.1)).Nodup then (st, "bad-op") else
        let vals := vs.filterMap (fun v => w.res[v.1]?)
        let valsS := String.intercalate "," (vals.map (valStr k))
        match eS.toNat? with
        | some e =>
          let muts := (vs.filter (·.2)).map (·.1)
          let drops := muts.filterMap (fun p => w.res[p]?)
          let res' := (List.zip (List.range w.res.length) w.res).map (fun (p, v) => if muts.contains p then cloneVal e v else v)
          (st.setW wi (some { w with res := res' }), s!"ok vals={valsS} drops={dropsStr k drops}")
        | none => (st, s!"ok vals={valsS} drops=")
  | "de", [modeS, eS, _srcS, toksS] =>
    match eS.toNat? with
    | some e =>
      let hr := modeS == "rows"
      let old := match st.getW wi with | some w => w.values | none => []
      match Serde.deserialize k hr st.n k.res.length e st.next (Serde.parseToks toksS) with
      | .ok w' =>
        let eqS :=
          match _srcS.toNat? with
          | some src =>
            match st.getW src with
            | some s => if src == wi then "" else
              match World.eqWorld s w' with
              | .ok b => s!" eq={if b then 1 else 0}"
              | .ub _ => " eq=UB"
            | none => ""
          | none => ""
        (st.setW wi (some w'), s!"ok{eqS} drops={dropsStr k old}")
      | .error _ => (st, "err")
    | none => bad
  | "q", [viewsS, filterS, _mode, eS] =>
    match parseViews viewsS, parseFilter filterS with
    | some vs, some f =>
      withW fun w =>
        match w.query vs f with
        | .ub e => (st, ubStr e)
        | .ok rows =>
          let rowsS := String.intercalate "," (sortStrings (rows.map (rowStr k)))
          match eS.toNat? with
          | some e =>
            let (w', drops) := w.queryWrite vs f e
            (st.setW wi (some w'), s!"ok n={rows.length} rows={rowsS} drops={dropsStr k drops}")
          | none => (st, s!"ok n={rows.length} rows={rowsS} drops=")
    | _, _ => bad
  | "parq", [viewsS, filterS, _threads, _mode, eS] =>
    -- same answer as the sequential query: the parallel iterator must present the same multiset
    match parseViews viewsS, parseFilter filterS with
    | some vs, some f =>
      withW fun w =>
        match w.query vs f with
        | .ub e => (st, ubStr e)
        | .ok rows =>
          let rowsS := String.intercalate "," (sortStrings (rows.map (rowStr k)))
          match eS.toNat? with
          | some e =>
            let (w', drops) := w.queryWrite vs f e
            (st.setW wi (some w'), s!"ok n={rows.length} rows={rowsS} drops={dropsStr k drops}")
          | none => (st, s!"ok n={rows.length} rows={rowsS} drops=")
    | _, _ => bad
  | "entryq", [idS, viewsS, filterS] =>
    match parseIdent idS, parseViews viewsS, parseFilter filterS with
    | some id, some vs, some f =>
      withW fun w =>
        if (w.alloc.get id).isNone then (st, "none") else
        match w.entryQuery id vs f with
        | .ub e => (st, ubStr e)
        | .ok none => (st, "filtered")
        | .ok (some row) => (st, s!"ok row={rowStr k row}")
    | _, _, _ => bad
  | "entries", [_viewsS, _filterS, evsS, idS, subsS, sfS] =>
    match parseViews evsS, parseIdent idS, parseViews subsS, parseFilter sfS with
    | some evs, some id, some subs, some f =>
      withW fun w =>
        if (w.alloc.get id).isNone then (st, "none") else
        match w.entriesQuery evs id subs f with
        | .ub e => (st, ubStr e)
        | .ok none => (st, "filtered")
        | .ok (some row) => (st, s!"ok row={rowStr k row}")
    | _, _, _, _ => bad
  | _, _ => bad

def dumpsOf (st : St) : List String :=
  (List.zip (List.range st.worlds.length) st.worlds).filterMap (fun (i, w) =>
    match w with
    | some w => some s!"d {i} {w.dump st.kinds}"
    | none => none)

def fieldOf (toks : List String) (name : String) : Option String := field toks name

def St.getS (st : St) (i : Nat) : Option Spec := st.specs.getD i none
def St.setS (st : St) (i : Nat) (s : Option Spec) : St := { st with specs := st.specs.set i s }

def xline (st : St) (oracle what : String) : String :=
  s!"X {st.lineNo} case={st.caseName} oracle={oracle} {what}"

def specVals (k : Kinds) (s : Spec) : List Val := s.ents.flatMap (·.vals) ++ s.res

/-- Update the L0 spec of the awaited op with the implementation's own result line and check the
result against the spec.  Returns the `X` lines of failed oracles. -/
def specOnResult (st : St) (toks : List String) : St × List String :=
  match st.pending with
  | none => (st, [])
  | some (wi, name, args) =>
    let st := { st with pending := none }
    let k := st.kinds
    let status := toks.getD 1 ""
    let fail (st : St) (o w : String) : St × List String :=
      ({ st with oracleFails := st.oracleFails + 1 }, [xline st o w])
    let realDrops := fieldOf toks "drops"
    let checkDrops (st : St) (expect : List Val) : St × List String :=
      match realDrops with
      | some d => if d == dropsStr k expect then (st, []) else fail st "drops" s!"op={name} spec-drops=[{dropsStr k expect}] real-drops=[{d}]"
      | none => (st, [])
    -- anything but a plain outcome: the spec of that world is no longer tracked
    if status == "panicked" || status == "bad-op" || status == "no-world" || status == "UB" then
      (if name == "len" || name == "probe" || name == "eq" then st else st.setS wi none, [])
    else
    match name, args with
    | "new", [resIds] =>
      let old := match st.getS wi with | some s => specVals k s | none => []
      let ids := (parseNats resIds).getD []
      let res := List.zipWith (fun p i => mkVal k (resTy p) i) (List.range ids.length) ids
      let tracked := (st.getS wi).isSome || (st.getW wi).isNone || true
      let (st1, o) := if (st.getS wi).isSome then checkDrops st old else (st, [])
      let _ := tracked
      (st1.setS wi (some (Spec.empty res)), o)
    | "insert", [shapeS, idsS] =>
      match st.getS wi, parseNats shapeS, parseNats idsS, (fieldOf toks "id").bind parseIdent with
      | some s, some shape, some ids, some id =>
        match s.insert id (mkVals k shape ids) with
        | some s' => (st.setS wi (some s'), [])
        | none => let (st, o) := fail st "spec" s!"ident-reused {id.toStr} was issued before in this world"
                  (st.setS wi none, o)
      | none, _, _, _ => (st, [])
      | _, _, _, _ => fail st "spec" "insert returned no identifier"
    | "extend", [shapeS, rowsS] =>
      match st.getS wi, parseNats shapeS, parseRows rowsS with
      | some s, some shape, some rows =>
        let idsS := (fieldOf toks "ids").getD ""
        match (splitNE idsS ",").mapM parseIdent with
        | some ids =>
          if ids.length ≠ rows.length then
            let (st, o) := fail st "spec" s!"extend returned {ids.length} identifiers for {rows.length} rows"
            (st.setS wi none, o)
          else
          match s.extend ids (rows.map (mkVals k shape)) with
          | some s' => (st.setS wi (some s'), [])
          | none => let (st, o) := fail st "spec" s!"ident-reused in batch [{idsS}]"
                    (st.setS wi none, o)
        | none => fail st "spec" "extend result unparsable"
      | _, _, _ => (st, [])
    | "remove", [idS] =>
      match st.getS wi, parseIdent idS with
      | some s, some id =>
        let expect := match s.find id with | some e => e.vals | none => []
        let (st, o) := checkDrops st expect
        (st.setS wi (some (s.remove id)), o)
      | _, _ => (st, [])
    | "clear", _ =>
      match st.getS wi with
      | some s => let (st, o) := checkDrops st (s.ents.flatMap (·.vals)); (st.setS wi (some s.clear), o)
      | none => (st, [])
    | "add", [idS, cS, vS] =>
      match st.getS wi, parseIdent idS, cS.toNat?, vS.toNat? with
      | some s, some id, some c, some v =>
        match s.find id with
        | none => if status == "none" then (st, []) else fail st "spec" s!"add on dead identifier {id.toStr} returned {status}"
        | some e =>
          if status == "none" then fail st "spec" s!"entry() is None for live identifier {id.toStr}" else
          let (st, o) := checkDrops st (e.vals.filter (fun x => x.ty == c))
          (st.setS wi (some (s.add id (mkVal k c v))), o)
      | _, _, _, _ => (st, [])
    | "del", [idS, cS] =>
      match st.getS wi, parseIdent idS, cS.toNat? with
      | some s, some id, some c =>
        match s.find id with
        | none => if status == "none" then (st, []) else fail st "spec" s!"del on dead identifier {id.toStr} returned {status}"
        | some e =>
          if status == "none" then fail st "spec" s!"entry() is None for live identifier {id.toStr}" else
          let (st, o) := checkDrops st (e.vals.filter (fun x => x.ty == c))
          (st.setS wi (some (s.del id c)), o)
      | _, _, _ => (st, [])
    | "write", [idS, cS, vS] =>
      match st.getS wi, parseIdent idS, cS.toNat?, vS.toNat? with
      | some s, some id, some c, some v =>
        match s.find id with
        | none => if status == "none" then (st, []) else fail st "spec" s!"write on dead identifier {id.toStr} returned {status}"
        | some e =>
          let has := e.vals.any (fun x => x.ty == c)
          if has && status == "none" then fail st "spec" s!"entry query is None for live identifier {id.toStr} with component {c}"
          else if !has && status != "none" then fail st "spec" s!"entry query yields absent component {c} of {id.toStr}"
          else
          let (st, o) := if has then checkDrops st (e.vals.filter (fun x => x.ty == c)) else (st, [])
          (st.setS wi (some (s.write id (mkVal k c v))), o)
      | _, _, _, _ => (st, [])
    | "churn", [idS, nS] =>
      match st.getS wi, parseIdent idS, (fieldOf toks "id").bind parseIdent with
      | some s, some id, some last =>
        if (s.find id).isNone then fail st "spec" s!"churn on dead identifier {id.toStr} returned {status}" else
        if nS.toNat? == some 0 then (st, []) else
        match (s.remove id).insert last [] with
        | some s' => (st.setS wi (some s'), [])
        | none => let (st, o) := fail st "spec" s!"ident-reused {last.toStr} was issued before in this world"
                  (st.setS wi none, o)
      | _, _, _ => (st, [])
    | "chain", [idS, stepsS] =>
      match st.getS wi, parseIdent idS, parseChain stepsS with
      | some s, some id, some steps =>
        match s.find id with
        | none => if status == "none" then (st, []) else fail st "spec" s!"chain on dead identifier {id.toStr} returned {status}"
        | some _ =>
          if status == "none" then fail st "spec" s!"entry() is None for live identifier {id.toStr}" else
          -- the reference map, step by step: expected drops and expected reads
          let r := steps.foldl (fun (acc : Spec × List Val × List String) (st3 : Char × Nat × Nat) =>
            let (sp, dr, rd) := acc
            let (ch, c, v) := st3
            let cur := match sp.find id with | some e => e.vals | none => []
            let old := cur.filter (fun x => x.ty == c)
            if ch == 'a' then (sp.add id (mkVal k c v), dr ++ old, rd)
            else if ch == 'd' then (sp.del id c, dr ++ old, rd)
            else if ch == 'w' then (sp.write id (mkVal k c v), dr ++ old, rd)
            else (sp, dr, rd ++ [match old with | x :: _ => valStr k x | [] => "n"])) (s, [], [])
          let (st, o1) := checkDrops st r.2.1
          let wantReads := if r.2.2.isEmpty then "-" else String.intercalate "," r.2.2
          let (st, o2) := if fieldOf toks "reads" == some wantReads then (st, [])
            else fail st "spec" s!"chain reads: spec={wantReads} real={fieldOf toks "reads"}"
          (st.setS wi (some r.1), o1 ++ o2)
      | _, _, _ => (st, [])
    | "probe", [idS] =>
      match st.getS wi, parseIdent idS with
      | some s, some id =>
        let want := if s.contains id then "1" else "0"
        if fieldOf toks "contains" == some want && fieldOf toks "entry" == some want then (st, [])
        else fail st "spec" s!"ident {id.toStr} live-in-spec={want} real contains={fieldOf toks "contains"} entry={fieldOf toks "entry"}"
      | _, _ => (st, [])
    | "len", [] =>
      match st.getS wi with
      | some s =>
        let want := toString s.ents.length
        let wantE := if s.ents.isEmpty then "1" else "0"
        if fieldOf toks "len" == some want && fieldOf toks "empty" == some wantE then (st, [])
        else fail st "spec" s!"len: spec={want} real={fieldOf toks "len"} empty={fieldOf toks "empty"}"
      | none => (st, [])
    | "clone", [srcS, eS] =>
      match srcS.toNat?, eS.toNat? with
      | some src, some e =>
        let old := match st.getS wi with | some s => some (specVals k s) | none => none
        let (st, o) := match old with | some vs => checkDrops st vs | none => (st, [])
        (st.setS wi ((st.getS src).map (fun s => s.copy e)), o)
      | _, _ => (st, [])
    | "clonefrom", [srcS, eS] =>
      match srcS.toNat?, eS.toNat? with
      | some src, some e =>
        let old := match st.getS wi with | some s => some (specVals k s) | none => none
        let (st, o) := match old with | some vs => checkDrops st vs | none => (st, [])
        (st.setS wi ((st.getS src).map (fun s => s.copy e)), o)
      | _, _ => (st, [])
    | "drop", [] =>
      let (st, o) := match st.getS wi with | some s => checkDrops st (specVals k s) | none => (st, [])
      (st.setS wi none, o)
    | "eq", [oS] =>
      match oS.toNat? with
      | some o =>
        let eq := fieldOf toks "eq"
        let rev := fieldOf toks "rev"
        let asym := if rev.isSome && eq != rev then [xline st "eq" s!"asymmetric eq={eq} rev={rev}"] else []
        let refl := if o == wi && eq != some "1" then [xline st "eq" "irreflexive"] else []
        let unsound :=
          match st.getS wi, st.getS o with
          | some a, some b =>
            let ra := String.intercalate ";" (sortStrings (a.ents.map (fun e => s!"{e.id.toStr}:" ++ String.intercalate "," (e.vals.map (fun v => s!"{v.ty}:{if k.kindOf v.ty == 'z' then 0 else v.base}")))))
            let rb := String.intercalate ";" (sortStrings (b.ents.map (fun e => s!"{e.id.toStr}:" ++ String.intercalate "," (e.vals.map (fun v => s!"{v.ty}:{if k.kindOf v.ty == 'z' then 0 else v.base}")))))
            let resA := a.res.map (fun v => if k.kindOf v.ty == 'z' then 0 else v.base)
            let resB := b.res.map (fun v => if k.kindOf v.ty == 'z' then 0 else v.base)
            if eq == some "1" && (ra != rb || resA != resB) then [xline st "eq" s!"unsound: worlds compare equal but hold different entities/values/resources"] else []
          | _, _ => []
        let outs := asym ++ refl ++ unsound
        ({ st with oracleFails := st.oracleFails + outs.length }, outs)
      | none => (st, [])
    | "sched", [descS, _e, _scripts] =>
      -- oracles on the *real* static grouping, by the specification of conflict (not by the stager model)
      match (descS.splitOn "|").mapM parseTask with
      | none => (st, [])
      | some tasks =>
        let groupsS := (fieldOf toks "stages").getD "-"
        let groups : List (List Nat) := if groupsS == "-" then [] else
          (groupsS.splitOn "/").map (fun g => (g.splitOn ".").filterMap String.toNat?)
        let tg := groups.map (fun g => g.filterMap (fun i => tasks[i]?))
        -- C08: a task grouped with an earlier task of the same group it conflicts with
        let bad8 := tg.any (fun g => (List.range g.length).any (fun i =>
          match g[i]? with
          | some t => stageConflict (g.take i) t
          | none => false))
        -- C12: a boundary that no conflict justifies
        let rec unjust : List (List Task) → Bool
          | g1 :: g2 :: rest => (match g2.head? with | some t => !stageConflict g1 t | none => false) || unjust (g2 :: rest)
          | _ => false
        let bad12 := unjust tg
        let lost := groups.flatten.length != tasks.length
        let o := (if bad8 then [xline st "stages" s!"conflicting tasks share a stage: schedule={descS} real-stages={groupsS}"] else []) ++
                 (if bad12 then [xline st "stages" s!"serialised without conflict: a stage boundary is not justified by any conflict: schedule={descS} real-stages={groupsS}"] else []) ++
                 (if lost then [xline st "stages" s!"tasks lost or duplicated by staging: schedule={descS} real-stages={groupsS}"] else [])
        ({ st with oracleFails := st.oracleFails + o.length }, o)
    | "res", ["set", pS, vS] =>
      match st.getS wi, pS.toNat?, vS.toNat? with
      | some s, some p, some v =>
        let (st, o) := checkDrops st (match s.res[p]? with | some x => [x] | none => [])
        (st.setS wi (some { s with res := s.res.set p (mkVal k (resTy p) v) }), o)
      | _, _, _ => (st, [])
    | "res", ["view", descS, eS] =>
      match st.getS wi, parseResViews descS with
      | some s, some vs =>
        let want := String.intercalate "," ((vs.filterMap (fun v => s.res[v.1]?)).map (valStr k))
        let (st, o1) := if fieldOf toks "vals" == some want then (st, []) else
          fail st "res" s!"view_resources [{descS}] returned [{(fieldOf toks "vals").getD ""}] but the reference holds [{want}]"
        match eS.toNat? with
        | some e =>
          let muts := (vs.filter (·.2)).map (·.1)
          let (st, o2) := checkDrops st (muts.filterMap (fun p => s.res[p]?))
          let res' := (List.zip (List.range s.res.length) s.res).map (fun (p, v) => if muts.contains p then cloneVal e v else v)
          (st.setS wi (some { s with res := res' }), o1 ++ o2)
        | none => (st, o1)
      | _, _ => (st, [])
    | "de", [_mode, eS, srcS, _toks] =>
      if status == "ok" then
        let old := match st.getS wi with | some s => some (specVals k s) | none => none
        let (st, o) := match old with | some vs => checkDrops st vs | none => (st, [])
        let (st, o) :=
          if fieldOf toks "eq" == some "0" then
            let (st, o2) := fail st "lockstep" s!"round trip of world {srcS} does not compare equal to the original"
            (st, o ++ o2)
          else (st, o)
        match srcS.toNat?, eS.toNat? with
        | some src, some e => (st.setS wi ((st.getS src).map (fun s => s.copy e)), o)
        | _, _ => (st.setS wi none, o)      -- a mutated input that was accepted: contents not predicted by L0
      else
        -- an unmutated serialization of a reachable world must deserialize (C06)
        match srcS.toNat? with
        | some src => fail st "lockstep" s!"serialization of world {src} was rejected by deserialize"
        | none => (st, [])
    | "serde", srcS :: _mode :: eS :: _ =>
      match srcS.toNat?, eS.toNat? with
      | some src, some e =>
        if status == "ok" then
          let old := match st.getS wi with | some s => some (specVals k s) | none => none
          let (st, o) := match old with | some vs => checkDrops st vs | none => (st, [])
          (st.setS wi ((st.getS src).map (fun s => s.copy e)), o)
        else (st, [])
      | _, _ => (st, [])
    | "parq", [viewsS, filterS, _t, _mode, eS] =>
      match st.getS wi, parseViews viewsS, parseFilter filterS with
      | some s, some vs, some f =>
        let rows := Spec.query st.n s vs f
        let want := String.intercalate "," (sortStrings (rows.map (rowStr k)))
        let (st, o1) :=
          if fieldOf toks "rows" == some want && fieldOf toks "n" == some (toString rows.length) then (st, [])
          else fail st "par" s!"par_query views={viewsS} filter={filterS} spec-rows=[{want}] real-rows=[{(fieldOf toks "rows").getD ""}]"
        match eS.toNat? with
        | some e =>
          let cs := (vs.filter View.isMut).filterMap View.comp?
          let expect := (s.ents.filter (fun en => specMatches vs f (Spec.maskOf st.n en.vals))).flatMap
            (fun en => en.vals.filter (fun v => cs.contains v.ty))
          let (st, o2) := checkDrops st expect
          (st.setS wi (some (Spec.queryWrite st.n s vs f e)), o1 ++ o2)
        | none => (st, o1)
      | _, _, _ => (st, [])
    | "q", [viewsS, filterS, _mode, eS] =>
      match st.getS wi, parseViews viewsS, parseFilter filterS with
      | some s, some vs, some f =>
        let rows := Spec.query st.n s vs f
        let want := String.intercalate "," (sortStrings (rows.map (rowStr k)))
        let (st, o1) :=
          if fieldOf toks "rows" == some want && fieldOf toks "n" == some (toString rows.length) then (st, [])
          else fail st "query" s!"views={viewsS} filter={filterS} spec-rows=[{want}] real-rows=[{(fieldOf toks "rows").getD ""}]"
        match eS.toNat? with
        | some e =>
          let cs := (vs.filter View.isMut).filterMap View.comp?
          let expect := (s.ents.filter (fun en => specMatches vs f (Spec.maskOf st.n en.vals))).flatMap
            (fun en => en.vals.filter (fun v => cs.contains v.ty))
          let (st, o2) := checkDrops st expect
          (st.setS wi (some (Spec.queryWrite st.n s vs f e)), o1 ++ o2)
        | none => (st, o1)
      | _, _, _ => (st, [])
    | "entryq", [idS, viewsS, filterS] =>
      match st.getS wi, parseIdent idS, parseViews viewsS, parseFilter filterS with
      | some s, some id, some vs, some f =>
        let want :=
          match s.find id with
          | none => "none"
          | some e => if specMatches vs f (Spec.maskOf st.n e.vals) then "ok row=" ++ rowStr k (vs.map (Spec.cellOf e)) else "filtered"
        let got := String.intercalate " " (toks.drop 1)
        if got == want then (st, []) else fail st "query" s!"entry({id.toStr}).query views={viewsS} filter={filterS} spec=[{want}] real=[{got}]"
      | _, _, _, _ => (st, [])
    | "entries", [_v, _f, _evs, idS, subsS, sfS] =>
      match st.getS wi, parseIdent idS, parseViews subsS, parseFilter sfS with
      | some s, some id, some vs, some f =>
        let want :=
          match s.find id with
          | none => "none"
          | some e => if specMatches vs f (Spec.maskOf st.n e.vals) then "ok row=" ++ rowStr k (vs.map (Spec.cellOf e)) else "filtered"
        let got := String.intercalate " " (toks.drop 1)
        if got == want then (st, []) else fail st "query" s!"entries.entry({id.toStr}).query sub-views={subsS} filter={sfS} spec=[{want}] real=[{got}]"
      | _, _, _, _ => (st, [])
    | _, _ => (st, [])

/-- Compare `abs` of a real dump with the L0 spec of that world. -/
def specOnDump (st : St) (wi : Nat) (rw : World) : St × List String :=
  match st.getS wi with
  | none => (st, [])
  | some s =>
    let k := st.kinds
    let a := rw.absStr k
    let b := s.render k
    let o1 := if a == b then [] else [xline st "spec" s!"world {wi} holds [{a}] but the reference map holds [{b}]"]
    let o2 := if rw.len == s.ents.length then [] else [xline st "spec" s!"world {wi} len()={rw.len} but the reference map has {s.ents.length} entities"]
    let rr := String.intercalate "," (rw.res.map (valStr k))
    let sr := String.intercalate "," (s.res.map (valStr k))
    let o3 := if rr == sr then [] else [xline st "res" s!"world {wi} resources [{rr}] but the reference holds [{sr}]"]
    let outs := o1 ++ o2 ++ o3
    -- after a reported divergence stop tracking that world (one report per divergence)
    let st := if outs.isEmpty then st else st.setS wi none
    ({ st with oracleFails := st.oracleFails + outs.length }, outs)

def stepLine (st : St) (line : String) : St × List String :=
  let st := { st with lineNo := st.lineNo + 1 }
  let toks := (line.trimAscii.toString.splitOn " ").filter (· ≠ "")
  match toks with
  | [] => (st, [])
  | "case" :: rest =>
    let out := if st.expected.isEmpty then [] else [s!"M {st.lineNo} case={st.caseName} missing-real-lines={st.expected.length}"]
    ({ st with worlds := [none, none, none, none], specs := [none, none, none, none], pending := none, next := 0,
               expected := [], diverged := false, caseName := String.intercalate " " rest,
               mismatches := st.mismatches + out.length }, out)
  | ["registry", nS, kindsS] =>
    ({ st with n := nS.toNat?.getD 0, kinds := { st.kinds with comps := kindsS.toList } }, [])
  | ["resources", kindsS] =>
    ({ st with kinds := { st.kinds with res := if kindsS == "-" then [] else kindsS.toList } }, [])
  | "op" :: wS :: name :: args =>
    let out := if st.expected.isEmpty || st.diverged then [] else [s!"M {st.lineNo} case={st.caseName} missing-real-lines={st.expected.length}"]
    let st := { st with mismatches := st.mismatches + out.length, ops := st.ops + 1 }
    match wS.toNat? with
    | none => ({ st with expected := ["r bad-op"] }, out)
    | some wi =>
      let (st', r) := runOp st wi name args
      let exp := s!"r {r}" :: dumpsOf st'
      let emitted := if st.emit then (line :: exp) else []
      ({ st' with expected := exp, pending := some (wi, name, args) }, out ++ emitted)
  | ["ctor", which, tysS, verdict] =>
    -- C18: a constructor on a registry given as a list of type tags
    let tys := (parseNats tysS).getD []
    let fn := if which == "new" then "mod::new" else if which == "with_resources" then "mod::with_resources"
              else if which == "default" then "impl_default::default" else "impl_serde::visit_seq"
    -- does the constructor reach the asserting function through the extracted call graph?
    let rec reaches (fuel : Nat) (f : String) : Bool :=
      match fuel with
      | 0 => false
      | fuel + 1 =>
        (Generated.worldAsserts.lookup f).getD false ||
        ((Generated.worldCalls.lookup f).getD []).any (fun c => reaches fuel ("mod::" ++ c))
    let modelPanics := reaches 5 fn && !(assertNoDup Generated.assertNoDupShape tys [])
    let realPanics := verdict == "panicked"
    let st := { st with ops := st.ops + 1 }
    let o1 := if modelPanics == realPanics then [] else [s!"M {st.lineNo} case={st.caseName} model=[ctor {which} {tysS} {if modelPanics then "panicked" else "ok"}] real=[ctor {which} {tysS} {verdict}]"]
    let o2 := if !realPanics && !tys.Nodup then [s!"X {st.lineNo} case={st.caseName} oracle=ctor a World was obtained through {which} for a registry with a repeated component type [{tysS}]"]
              else if realPanics && tys.Nodup then [s!"X {st.lineNo} case={st.caseName} oracle=ctor {which} panicked for the duplicate-free registry [{tysS}]"] else []
    ({ st with mismatches := st.mismatches + o1.length, oracleFails := st.oracleFails + o2.length }, o1 ++ o2)
  | "prog" :: rest =>
    -- C14: `prog <program token…> | <compiled|rejected> <error codes>`
    let tokS := String.intercalate " " (rest.takeWhile (· ≠ "|"))
    let verdict := (rest.dropWhile (· ≠ "|")).getD 1 ""
    let st := { st with ops := st.ops + 1 }
    match findProg tokS with
    | none => ({ st with mismatches := st.mismatches + 1 }, [s!"M {st.lineNo} case={st.caseName} model=[prog {tokS} unknown-program] real=[prog {tokS} {verdict}]"])
    | some p =>
      let compiled := verdict == "compiled"
      let o1 := if accepts p == compiled then [] else
        [s!"M {st.lineNo} case={st.caseName} model=[prog {tokS} {if accepts p then "compiled" else "rejected"}] real=[prog {tokS} {verdict}]"]
      let o2 := if compiled && !Sound p then
        [s!"X {st.lineNo} case={st.caseName} oracle=program rustc accepts [{tokS}] which the property forbids (conflicting access, or a !Send/!Sync value reachable from another thread)"] else []
      ({ st with mismatches := st.mismatches + o1.length, oracleFails := st.oracleFails + o2.length }, o1 ++ o2)
  | "fault" :: seedS :: op :: cb :: kS :: outcome =>
    -- C17: one fault point executed on the real crate in a child process
    let st := { st with ops := st.ops + 1 }
    let out := String.intercalate " " outcome
    let bad := !(outcome.getD 1 "" == "ok") || outcome.length < 2
    if !bad then (st, []) else
    let safe := faultSafe op cb
    let x := s!"X {st.lineNo} case={st.caseName} oracle=fault op={op} callback={cb} k={kS} seed={seedS} outcome=[{out}]"
    let m := if safe then [s!"M {st.lineNo} case={st.caseName} model=[fault {op} {cb} safe] real=[fault {op} {cb} k={kS} {out}]"] else []
    ({ st with oracleFails := st.oracleFails + 1, mismatches := st.mismatches + m.length }, m ++ [x])
  | ["batch", lensS, verdict] =>
    let lens := (parseNats lensS).getD []
    let modelPanics := (Generated.batchShape.getD 0 false) && !(checkLen Generated.batchShape lens)
    let realPanics := verdict == "panicked"
    let ragged := lens.any (fun l => l != lens.headD 0)
    let st := { st with ops := st.ops + 1 }
    let o1 := if modelPanics == realPanics then [] else [s!"M {st.lineNo} case={st.caseName} model=[batch {lensS} {if modelPanics then "panicked" else "ok"}] real=[batch {lensS} {verdict}]"]
    let o2 := if !realPanics && ragged then [s!"X {st.lineNo} case={st.caseName} oracle=ctor Batch::new accepted columns of different lengths [{lensS}]"]
              else if realPanics && !ragged then [s!"X {st.lineNo} case={st.caseName} oracle=ctor Batch::new panicked on columns of equal length [{lensS}]"] else []
    ({ st with mismatches := st.mismatches + o1.length, oracleFails := st.oracleFails + o2.length }, o1 ++ o2)
  | tag :: _ =>
    if tag == "r" || tag == "d" then
      -- a line from the implementation: compare with the model's expectation
      let lineT := String.intercalate " " toks
      let (st, out1) :=
        match st.expected with
        | e :: rest =>
          if e == lineT || st.diverged then ({ st with expected := rest }, [])
          else ({ st with expected := rest, mismatches := st.mismatches + 1, diverged := true },
                [s!"M {st.lineNo} case={st.caseName} model=[{e}] real=[{lineT}]"])
        | [] =>
          if st.diverged then (st, []) else
          ({ st with mismatches := st.mismatches + 1, diverged := true },
           [s!"M {st.lineNo} case={st.caseName} model=[] real=[{lineT}]"])
      -- a panic of the real code on an operation the reference completes is a failure of the
      -- implementation, with this history as the failing input
      let (st, out1) :=
        if lineT == "r panicked" && !out1.isEmpty then
          ({ st with oracleFails := st.oracleFails + 1 },
           out1 ++ [s!"X {st.lineNo} case={st.caseName} oracle=panic the implementation panicked on an operation the reference model completes"])
        else (st, out1)
      -- L0 oracle on the implementation's own results
      let (st, outS) := if tag == "r" then specOnResult st toks else (st, [])
      let out1 := out1 ++ outS
      -- oracle on the implementation: Inv on the real dump
      if tag == "d" then
        match toks with
        | _ :: _ :: rest =>
          let st := { st with realDumps := st.realDumps + 1 }
          match parseDump st.n (String.intercalate " " rest) with
          | none =>
            ({ st with oracleFails := st.oracleFails + 1 },
             out1 ++ [s!"X {st.lineNo} case={st.caseName} oracle=dump-parse real=[{lineT}]"])
          | some rw =>
            let wiD := (toks.getD 1 "").toNat?.getD 0
            let (st, outA) := specOnDump st wiD rw
            let out1 := out1 ++ outA
            if invB rw then (st, out1)
            else ({ st with oracleFails := st.oracleFails + 1 },
                  out1 ++ [s!"X {st.lineNo} case={st.caseName} oracle=Inv failed={invFailures rw} real=[{lineT}]"])
        | _ => (st, out1)
      else (st, out1)
    else if tag == "X" then
      -- an oracle failure detected by the harness itself on the implementation (ledger, …)
      ({ st with oracleFails := st.oracleFails + 1 }, [String.intercalate " " toks])
    else (st, [])

partial def loop (h : IO.FS.Stream) (st : St) : IO St := do
  let line ← h.getLine
  if line.isEmpty then return st
  let (st', out) := stepLine st line
  for o in out do IO.println o
  loop h st'

def main (args : List String) : IO UInt32 := do
  let stdin ← IO.getStdin
  let st ← loop stdin { emit := args.contains "--emit" }
  IO.println s!"S ops={st.ops} mismatches={st.mismatches} oracle_fails={st.oracleFails} real_dumps={st.realDumps}"
  return (if st.mismatches == 0 && st.oracleFails == 0 then 0 else 1)
