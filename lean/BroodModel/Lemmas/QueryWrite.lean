/-
  Writes through the mutable views of a whole query (`World.queryWrite`): every matching entity's
  viewed-mutably components are replaced (here: by fresh copies `cloneVal e`), nothing else
  changes, the invariant is preserved — "writes made through mutable views are seen by later
  reads of that entity only".
-/
import BroodModel.Lemmas.QueryL
import BroodModel.Lemmas.CloneFrom

set_option linter.unusedSimpArgs false
set_option linter.unusedVariables false

namespace Brood
open Alloc

theorem cloneVal_idem (e : Nat) (v : Val) : cloneVal e (cloneVal e v) = cloneVal e v := by
  unfold cloneVal epochBase
  simp only [Val.mk.injEq, true_and]
  omega

theorem nodup_getElem?_inj {l : List Nat} (hn : l.Nodup) {j k : Nat} {c : Nat} (hj : l[j]? = some c)
    (hk : l[k]? = some c) : j = k := by
  induction l generalizing j k with
  | nil => simp at hj
  | cons x xs ih =>
    simp only [List.nodup_cons] at hn
    cases j with
    | zero =>
      cases k with
      | zero => rfl
      | succ k =>
        simp at hj hk; subst hj
        exact absurd (List.mem_of_getElem? hk) hn.1
    | succ j =>
      cases k with
      | zero =>
        simp at hj hk; subst hk
        exact absurd (List.mem_of_getElem? hj) hn.1
      | succ k =>
        simp at hj hk
        rw [ih hn.2 hj hk]

/-- Column `k` after the components in `cs` have been re-made. -/
def wcol (e : Nat) (cs : List Nat) (a : Arch) (k : Nat) : List Val :=
  if cs.contains (a.mask.comps.getD k 0) then (a.cols.getD k []).map (cloneVal e) else a.cols.getD k []

def wcols (e : Nat) (cs : List Nat) (a : Arch) : List (List Val) :=
  (List.range a.cols.length).map (wcol e cs a)

theorem wcols_getElem? (e : Nat) (cs : List Nat) (a : Arch) (k : Nat) :
    (wcols e cs a)[k]? = if k < a.cols.length then some (wcol e cs a k) else none := by
  unfold wcols
  rw [List.getElem?_map]
  by_cases hk : k < a.cols.length
  · simp [List.getElem?_range hk, hk]
  · simp [List.getElem?_eq_none, hk]

theorem wcols_nil (e : Nat) (a : Arch) : wcols e [] a = a.cols := by
  apply List.ext_getElem?
  intro k
  rw [wcols_getElem?]
  by_cases hk : k < a.cols.length
  · simp [hk, wcol, List.getD, List.getElem?_eq_getElem hk]
  · simp [hk, List.getElem?_eq_none]

/-- The write loop over the mutable components, characterised. -/
theorem writeFold_spec (e : Nat) {w : World} {a : Arch} (ok : ArchOk w a) (rest : List Nat) :
    ∀ (done : List Nat) (d0 : List Val), (∀ c ∈ rest, a.mask.has c = true) →
      (rest.foldl (writeStep e) ({ a with cols := wcols e done a }, d0)).1 =
        { a with cols := wcols e (done ++ rest) a } := by
  induction rest with
  | nil => intro done d0 _; simp
  | cons c cs ih =>
    intro done d0 hc
    have hcm := hc c (by simp)
    have hk : colIndex a.mask c < a.cols.length := by rw [ok.cols_len]; exact colIndex_lt_count hcm
    have hcomp : a.mask.comps[colIndex a.mask c]? = some c := colIndex_comps hcm
    simp only [List.foldl_cons]
    unfold writeStep
    have hget : (wcols e done a)[colIndex a.mask c]? = some (wcol e done a (colIndex a.mask c)) := by
      rw [wcols_getElem?]; simp [hk]
    have hset : (wcols e done a).set (colIndex a.mask c) ((wcol e done a (colIndex a.mask c)).map (cloneVal e)) =
        wcols e (done ++ [c]) a := by
      apply List.ext_getElem?
      intro j
      rw [List.getElem?_set, wcols_getElem?, wcols_getElem?]
      have hlen : (wcols e done a).length = a.cols.length := by simp [wcols]
      by_cases hj : j < a.cols.length
      · simp only [hj, if_true]
        by_cases hjk : colIndex a.mask c = j
        · subst hjk
          simp only [if_true, hlen, hk]
          congr 1
          unfold wcol
          have hcd : a.mask.comps.getD (colIndex a.mask c) 0 = c := by simp [List.getD, hcomp]
          rw [hcd]
          have h2 : (done ++ [c]).contains c = true := by simp
          rw [h2]
          by_cases hdc : done.contains c = true
          · simp only [hdc, if_true, List.map_map]
            apply List.map_congr_left
            intro v _
            exact cloneVal_idem e v
          · have : done.contains c = false := by
              cases hb : done.contains c with
              | false => rfl
              | true => exact absurd hb hdc
            simp only [this, Bool.false_eq_true, if_false, if_true]
        · simp only [hjk, if_false]
          congr 1
          unfold wcol
          have hne : a.mask.comps.getD j 0 ≠ c := by
            intro e'
            have hjc : j < a.mask.comps.length := by rw [comps_length, ← ok.cols_len]; exact hj
            have : a.mask.comps[j]? = some c := by
              rw [List.getElem?_eq_getElem hjc]
              simp [List.getD, List.getElem?_eq_getElem hjc] at e'
              rw [e']
            exact hjk (nodup_getElem?_inj (comps_nodup _) hcomp this)
          have : (done ++ [c]).contains (a.mask.comps.getD j 0) = done.contains (a.mask.comps.getD j 0) := by
            rw [Bool.eq_iff_iff]
            simp only [List.contains_iff_mem, List.mem_append, List.mem_singleton]
            constructor
            · rintro (h | h)
              · exact h
              · exact absurd h hne
            · intro h; exact Or.inl h
          rw [this]
      · simp only [hj, if_false]
        by_cases hjk : colIndex a.mask c = j
        · omega
        · simp [hjk, List.getElem?_eq_none, hlen, hj]
    simp only [hget]
    rw [hset]
    have := ih (done ++ [c]) (d0 ++ wcol e done a (colIndex a.mask c)) (fun x hx => hc x (by simp [hx]))
    rw [List.append_assoc] at this
    exact this

/-- The components written by a query's mutable views that the table has. -/
def writtenComps (vs : List View) (a : Arch) : List Nat :=
  ((vs.filter View.isMut).filterMap View.comp?).filter (fun c => a.mask.has c)

theorem writeArch_eq (e : Nat) (vs : List View) {w : World} {a : Arch} (ok : ArchOk w a) :
    (writeArch e vs a).1 = { a with cols := wcols e (writtenComps vs a) a } := by
  unfold writeArch
  simp only []
  have h0 : a = { a with cols := wcols e [] a } := by rw [wcols_nil]
  have := writeFold_spec e ok (writtenComps vs a) [] [] (by
    intro c hc
    unfold writtenComps at hc
    exact (List.mem_filter.mp hc).2)
  rw [wcols_nil] at this
  have h1 : ({ a with cols := a.cols } : Arch) = a := rfl
  rw [h1] at this
  exact this

/-! ### mapping the tables of a world -/

/-- Replacing every table by one with the same handle, mask and identifiers and well-shaped
columns preserves the invariant. -/
theorem inv_map_archs {w : World} (hi : Inv w) (g : Arch → Arch)
    (hh : ∀ a, (g a).handle = a.handle) (hm : ∀ a, (g a).mask = a.mask) (hids : ∀ a, (g a).ids = a.ids)
    (hshape : ∀ a ∈ w.archs, Serde.ArchShape w.n (g a)) : Inv { w with archs := w.archs.map g } := by
  have hfind : ∀ hd, ({ w with archs := w.archs.map g } : World).findArch hd = (w.findArch hd).map g :=
    fun hd => find_map_preserving g hh w.archs hd
  have hlook : ∀ p : Mask × Nat, lookupOk w p = true → lookupOk ({ w with archs := w.archs.map g } : World) p = true := by
    intro p hp
    obtain ⟨a, hfa, hma⟩ := lookup_mask hp
    unfold lookupOk
    rw [hfind, hfa]
    simpa [hm] using hma
  refine
    { free_nodup := hi.free_nodup, free_inactive := hi.free_inactive, slots := ?_, archs := ?_,
      masks_nodup := ?_, handles_nodup := ?_, typeIds := fun p hp => hlook p (hi.typeIds p hp),
      typeIds_nodup := hi.typeIds_nodup, foreign := fun p hp => hlook p (hi.foreign p hp), len := ?_ }
  · intro i hlt
    apply slotOk_iff.mpr
    intro s hs
    obtain ⟨h1, h2⟩ := (slotOk_iff.mp (hi.slots i hlt)) s hs
    refine ⟨h1, fun l hl => ?_⟩
    obtain ⟨b, hb, hrow, hfree⟩ := h2 l hl
    exact ⟨g b, by rw [hfind, hb]; rfl, by rw [hids]; exact hrow, hfree⟩
  · intro x hx
    apply archOk_iff.mpr
    obtain ⟨a, ha, rfl⟩ := List.mem_map.mp (hx : x ∈ w.archs.map g)
    have ok := hi.archOk ha
    have sh := hshape a ha
    refine
      { mask_len := sh.mask_len, handle_lt := by rw [hh]; exact ok.handle_lt, cols_len := sh.cols_len,
        cols_all_len := sh.cols_all_len, cols_ok := sh.cols_ok, rows := ?_, foreign := ?_ }
    · intro r id hr
      rw [hids] at hr
      rw [hh]
      exact ok.rows r id hr
    · show ((g a).mask, (g a).handle) ∈ w.foreign
      rw [hm, hh]; exact ok.foreign
  · show ((w.archs.map g).map (·.mask)).Nodup
    rw [List.map_map]
    have : ((fun a : Arch => a.mask) ∘ g) = fun a => a.mask := by funext a; exact hm a
    rw [this]; exact hi.masks_nodup
  · show ((w.archs.map g).map (·.handle)).Nodup
    rw [List.map_map]
    have : ((fun a : Arch => a.handle) ∘ g) = fun a => a.handle := by funext a; exact hh a
    rw [this]; exact hi.handles_nodup
  · show w.len = ((w.archs.map g).map (·.ids.length)).sum
    rw [List.map_map]
    have : ((fun a : Arch => a.ids.length) ∘ g) = fun a => a.ids.length := by
      funext a; simp [Function.comp, hids]
    rw [this]; exact hi.len

theorem entity_map_archs {w : World} (hi : Inv w) (g : Arch → Arch)
    (hh : ∀ a, (g a).handle = a.handle) (id : Ident) :
    ({ w with archs := w.archs.map g } : World).entity id =
      match w.alloc.get id with
      | none => none
      | some l => (w.findArch l.arch).map (fun a => (g a).row l.row) := by
  unfold World.entity
  show (match w.alloc.get id with | none => none | some l => _) = _
  cases hg : w.alloc.get id with
  | none => rfl
  | some l =>
    simp only
    have : ({ w with archs := w.archs.map g } : World).findArch l.arch = (w.findArch l.arch).map g :=
      find_map_preserving g hh w.archs l.arch
    rw [this]
    cases w.findArch l.arch <;> rfl

/-! ### the whole write -/

/-- What `queryWrite` does to one table. -/
def writeG (e : Nat) (vs : List View) (f : Filter) (a : Arch) : Arch :=
  if viewsFilter a.mask vs && f.eval a.mask then { a with cols := wcols e (writtenComps vs a) a } else a

theorem writeOne_fold (e : Nat) (vs : List View) (f : Filter) {w : World} (l : List Arch)
    (hok : ∀ a ∈ l, ArchOk w a) :
    ∀ acc : List Arch × List Val, (l.foldl (writeOne e vs f) acc).1 = acc.1 ++ l.map (writeG e vs f) := by
  induction l with
  | nil => intro acc; simp
  | cons a as ih =>
    intro acc
    simp only [List.foldl_cons, List.map_cons]
    rw [ih (fun b hb => hok b (by simp [hb]))]
    unfold writeOne writeG
    by_cases hm : (viewsFilter a.mask vs && f.eval a.mask) = true
    · simp only [hm, if_true, writeArch_eq e vs (hok a (by simp))]
      simp
    · have hm' : (viewsFilter a.mask vs && f.eval a.mask) = false := by
        cases hb : (viewsFilter a.mask vs && f.eval a.mask) with
        | false => rfl
        | true => exact absurd hb hm
      simp only [hm', Bool.false_eq_true, if_false]
      simp

theorem queryWrite_world {w : World} (hi : Inv w) (vs : List View) (f : Filter) (e : Nat) :
    (w.queryWrite vs f e).1 = { w with archs := w.archs.map (writeG e vs f) } := by
  unfold World.queryWrite
  simp only
  rw [writeOne_fold e vs f w.archs (fun a ha => hi.archOk ha)]
  simp

theorem wcols_shape (e : Nat) (cs : List Nat) {w : World} {a : Arch} (ok : ArchOk w a) :
    Serde.ArchShape w.n { a with cols := wcols e cs a } := by
  refine ⟨ok.mask_len, by simp [wcols, ok.cols_len], ?_⟩
  intro j c ty hj hty
  have hj' : (wcols e cs a)[j]? = some c := hj
  rw [wcols_getElem?] at hj'
  by_cases hjl : j < a.cols.length
  · simp only [hjl, if_true, Option.some.injEq] at hj'
    have hty' : a.mask.comps[j]? = some ty := hty
    obtain ⟨o1, o2⟩ := ok.cols_ok j _ ty (List.getElem?_eq_getElem hjl) hty'
    have hgd : a.cols.getD j [] = a.cols[j] := by simp [List.getD, List.getElem?_eq_getElem hjl]
    subst hj'
    unfold wcol
    rw [hgd]
    split
    · refine ⟨by simp [o1], ?_⟩
      intro v hv
      obtain ⟨v0, hv0, rfl⟩ := List.mem_map.mp hv
      exact o2 v0 hv0
    · exact ⟨o1, o2⟩
  · simp [hjl] at hj'

/-- Row `r` of the re-made columns: the re-made components of the old row. -/
theorem wcols_row (e : Nat) (cs : List Nat) {w : World} {a : Arch} (ok : ArchOk w a) {r : Nat}
    (hr : r < a.ids.length) :
    ({ a with cols := wcols e cs a } : Arch).row r =
      (a.row r).map (fun v => if cs.contains v.ty then cloneVal e v else v) := by
  have hshape := wcols_shape e cs ok
  have hsome' : ∀ c ∈ wcols e cs a, c[r]? = some (c.getD r default) := by
    intro c hc
    have : r < c.length := by
      have := hshape.cols_all_len c hc
      simp only at this
      rw [this]; exact hr
    simp [List.getD, List.getElem?_eq_getElem this]
  unfold Arch.row
  show (wcols e cs a).filterMap (fun c => c[r]?) = _
  rw [filterMap_eq_map hsome']
  have hrow := row_eq_map ok hr
  unfold Arch.row at hrow
  rw [hrow, List.map_map]
  apply List.ext_getElem?
  intro k
  rw [List.getElem?_map, wcols_getElem?, List.getElem?_map]
  by_cases hk : k < a.cols.length
  · simp only [hk, if_true, List.getElem?_eq_getElem hk, Option.map_some, Function.comp, Option.some.injEq]
    have hkc : k < a.mask.comps.length := by rw [comps_length, ← ok.cols_len]; exact hk
    obtain ⟨o1, o2⟩ := ok.cols_ok k _ _ (List.getElem?_eq_getElem hk) (List.getElem?_eq_getElem hkc)
    have hrc : r < (a.cols[k]).length := by rw [o1]; exact hr
    have hgd : a.cols.getD k [] = a.cols[k] := by simp [List.getD, List.getElem?_eq_getElem hk]
    have hcd : a.mask.comps.getD k 0 = a.mask.comps[k] := by simp [List.getD, List.getElem?_eq_getElem hkc]
    have hvty : ((a.cols[k]).getD r default).ty = a.mask.comps[k] := by
      have : (a.cols[k]).getD r default = (a.cols[k])[r] := by simp [List.getD, List.getElem?_eq_getElem hrc]
      rw [this]; exact o2 _ (List.getElem_mem hrc)
    unfold wcol
    rw [hgd, hcd, hvty]
    split
    · simp [List.getD, List.getElem?_map, List.getElem?_eq_getElem hrc]
    · rfl
  · simp [hk, List.getElem?_eq_none]

/-- **Writes through a query's mutable views**: the invariant is preserved, and an entity's values
change only if the entity matches the query, and then only in the components viewed mutably. -/
theorem queryWrite_spec {w : World} (hi : Inv w) (vs : List View) (f : Filter) (e : Nat) :
    Inv (w.queryWrite vs f e).1 ∧ (w.queryWrite vs f e).1.len = w.len ∧
    ∀ id, (w.queryWrite vs f e).1.entity id =
      (w.entity id).map (fun vals =>
        if specMatches vs f (Spec.maskOf w.n vals) then
          vals.map (fun v =>
            if ((vs.filter View.isMut).filterMap View.comp?).contains v.ty then cloneVal e v else v)
        else vals) := by
  rw [queryWrite_world hi]
  have hh : ∀ a, (writeG e vs f a).handle = a.handle := by intro a; unfold writeG; split <;> rfl
  have hm : ∀ a, (writeG e vs f a).mask = a.mask := by intro a; unfold writeG; split <;> rfl
  have hids : ∀ a, (writeG e vs f a).ids = a.ids := by intro a; unfold writeG; split <;> rfl
  refine ⟨inv_map_archs hi _ hh hm hids ?_, rfl, ?_⟩
  · intro a ha
    unfold writeG
    split
    · exact wcols_shape e _ (hi.archOk ha)
    · exact archShape_of_ok (hi.archOk ha)
  · intro id
    rw [entity_map_archs hi _ hh]
    cases hg : w.alloc.get id with
    | none => simp [entity_none_of_dead hg]
    | some l =>
      obtain ⟨a, la, hha⟩ := hi.liveAt hg
      have hr : l.row < a.ids.length := (List.getElem?_eq_some_iff.mp la.row).1
      simp only [← hha, la.find, Option.map_some, entity_of_liveAt la, maskOf_row la.ok hr, specMatches_eq]
      unfold writeG
      by_cases hmt : (viewsFilter a.mask vs && f.eval a.mask) = true
      · simp only [hmt, if_true, Option.some.injEq]
        rw [wcols_row e _ la.ok hr]
        apply List.map_congr_left
        intro v hv
        have hvm : a.mask.has v.ty = true := by
          have : v.ty ∈ (a.row l.row).map (·.ty) := List.mem_map.mpr ⟨v, hv, rfl⟩
          unfold Arch.row at this
          rw [row_tys la.ok hr] at this
          exact mem_comps.mp this
        have : (writtenComps vs a).contains v.ty =
            ((vs.filter View.isMut).filterMap View.comp?).contains v.ty := by
          unfold writtenComps
          rw [Bool.eq_iff_iff]
          simp only [List.contains_iff_mem, List.mem_filter]
          constructor
          · exact fun h => h.1
          · exact fun h => ⟨h, hvm⟩
        rw [this]
      · have hm' : (viewsFilter a.mask vs && f.eval a.mask) = false := by
          cases hb : (viewsFilter a.mask vs && f.eval a.mask) with
          | false => rfl
          | true => exact absurd hb hmt
        simp only [hm', Bool.false_eq_true, if_false]

end Brood
