//! `Family`: the typed operations of one registry, as implemented by generated code.

use brood::entity;
use brood::world::verif::VerifDump;
use serde_assert::Tokens;

pub struct QOut {
    pub rows: Vec<String>,
    pub hint_errors: Vec<String>,
}
pub type QFn<W> = fn(&mut W, u8, Option<u64>) -> QOut;
/// parallel query: (world, pool threads, consumption mode, write epoch)
pub type PFn<W> = fn(&mut W, usize, u8, Option<u64>) -> QOut;
/// `Err(())`: `entry()` was `None`; `Ok(None)`: the query's filter rejected the entity.
pub type EFn<W> = fn(&mut W, entity::Identifier) -> Result<Option<String>, ()>;

pub trait Family: 'static {
    fn queries() -> &'static [(&'static str, &'static str, QFn<Self::W>)];
    fn par_queries() -> &'static [(&'static str, &'static str, PFn<Self::W>)];
    fn entryqs() -> &'static [(&'static str, &'static str, EFn<Self::W>)];
    fn entries() -> &'static [(&'static str, &'static str, &'static str, &'static str, &'static str, EFn<Self::W>)];
    type W: 'static;
    const N: usize;
    const KINDS: &'static str;
    const RES_KINDS: &'static str;
    const NAME: &'static str;
    fn shapes() -> &'static [&'static [u8]];
    fn new_world(res: &[u64]) -> Self::W;
    fn insert(w: &mut Self::W, shape: &[u8], ids: &[u64]) -> Option<entity::Identifier>;
    fn extend(w: &mut Self::W, shape: &[u8], rows: &[Vec<u64>]) -> Option<Vec<entity::Identifier>>;
    fn reserve(w: &mut Self::W, shape: &[u8], n: usize) -> bool;
    /// `None`: no such component; `Some(false)`: `entry()` was `None`.
    fn add(w: &mut Self::W, id: entity::Identifier, c: usize, v: u64) -> Option<bool>;
    fn del(w: &mut Self::W, id: entity::Identifier, c: usize) -> Option<bool>;
    fn write(w: &mut Self::W, id: entity::Identifier, c: usize, v: u64) -> Option<bool>;
    /// several entry operations through one `world.entry(id)` handle: (kind, component, value) with
    /// kind 0 = add, 1 = remove, 2 = write through `&mut`, 3 = read; returns the reads (None = absent)
    fn chain(w: &mut Self::W, id: entity::Identifier, steps: &[(u8, usize, u64)]) -> Option<Option<Vec<Option<String>>>>;
    /// Every entity with all its component identities (through an all-optional query).
    fn rows(w: &mut Self::W) -> Vec<((usize, u64), Vec<Option<u64>>)>;
    fn res(w: &Self::W) -> Vec<u64>;
    fn res_set(w: &mut Self::W, p: usize, v: u64) -> bool;
    /// `view_resources` with the described views (`<pos><r|m>,…`); mutable ones optionally written.
    fn res_view(w: &mut Self::W, desc: &str, write: Option<u64>) -> Option<Vec<String>>;

    fn remove(w: &mut Self::W, id: entity::Identifier);
    fn clear(w: &mut Self::W);
    fn shrink(w: &mut Self::W);
    fn clone_world(w: &Self::W) -> Self::W;
    fn clone_from(dst: &mut Self::W, src: &Self::W);
    fn eq(a: &Self::W, b: &Self::W) -> bool;
    fn contains(w: &Self::W, id: entity::Identifier) -> bool;
    fn has_entry(w: &mut Self::W, id: entity::Identifier) -> bool;
    fn len(w: &Self::W) -> usize;
    fn is_empty(w: &Self::W) -> bool;
    fn dump(w: &Self::W) -> VerifDump;
    fn debug(w: &Self::W) -> String;
    fn ser_tokens(w: &Self::W, human_readable: bool) -> Result<Tokens, String>;
    fn de_tokens(tokens: Tokens, human_readable: bool) -> Result<Self::W, String>;
    fn ser_json(w: &Self::W) -> Result<String, String>;
    fn de_json(text: &str) -> Result<Self::W, String>;
}

#[macro_export]
macro_rules! family_common {
    () => {
        fn remove(w: &mut W, id: entity::Identifier) {
            w.remove(id)
        }
        fn clear(w: &mut W) {
            w.clear()
        }
        fn shrink(w: &mut W) {
            w.shrink_to_fit()
        }
        fn clone_world(w: &W) -> W {
            w.clone()
        }
        fn clone_from(dst: &mut W, src: &W) {
            dst.clone_from(src)
        }
        fn eq(a: &W, b: &W) -> bool {
            a == b
        }
        fn contains(w: &W, id: entity::Identifier) -> bool {
            w.contains(id)
        }
        fn has_entry(w: &mut W, id: entity::Identifier) -> bool {
            w.entry(id).is_some()
        }
        fn len(w: &W) -> usize {
            w.len()
        }
        fn is_empty(w: &W) -> bool {
            w.is_empty()
        }
        fn dump(w: &W) -> brood::world::verif::VerifDump {
            w.verif_dump()
        }
        fn debug(w: &W) -> String {
            format!("{:?}", w)
        }
        fn ser_tokens(w: &W, human_readable: bool) -> Result<serde_assert::Tokens, String> {
            use serde::Serialize;
            let serializer = serde_assert::Serializer::builder()
                .is_human_readable(human_readable)
                .build();
            w.serialize(&serializer).map_err(|e| format!("{:?}", e))
        }
        fn de_tokens(tokens: serde_assert::Tokens, human_readable: bool) -> Result<W, String> {
            use serde::Deserialize;
            let mut deserializer = serde_assert::Deserializer::builder()
                .tokens(tokens)
                .is_human_readable(human_readable)
                .self_describing(false)
                .build();
            W::deserialize(&mut deserializer).map_err(|e| format!("{:?}", e))
        }
        fn ser_json(w: &W) -> Result<String, String> {
            serde_json::to_string(w).map_err(|e| format!("{}", e))
        }
        fn de_json(text: &str) -> Result<W, String> {
            serde_json::from_str::<W>(text).map_err(|e| format!("{}", e))
        }
    };
}
