/-
  Histories of world operations: the op language the history theorems quantify over, its step
  function on the L1 model, and the lift of one-step preservation to every reachable state.
-/
import BroodModel.Lemmas.Insert
import BroodModel.Lemmas.Extend
import BroodModel.Lemmas.Remove
import BroodModel.Lemmas.Clear
import BroodModel.Lemmas.Shrink
import BroodModel.Lemmas.Write
import BroodModel.Lemmas.Move

namespace Brood

/-- Public single-world operations. (`clone`, `clone_from` and deserialization involve a second
world and are treated separately.) -/
inductive Op
  | insert (shape : List Nat) (vals : List Val)
  | extend (shape : List Nat) (rows : List (List Val))
  | remove (id : Ident)
  | clear (order : List Mask)               -- `order`: the table iterator's order, any list
  | add (id : Ident) (c : Nat) (v : Val)    -- Entry::add
  | del (id : Ident) (c : Nat)              -- Entry::remove
  | write (id : Ident) (c : Nat) (v : Val)  -- mutation through a `&mut` entry view
  | reserve (shape : List Nat)
  | shrink
deriving Repr

def fstOut {α β} : Out (α × β) → Out α
  | .ok (a, _) => .ok a
  | .ub e => .ub e

/-- One step. Results (identifiers, dropped values) are not needed for the invariant. -/
def step (w : World) : Op → Out World
  | .insert shape vals => fstOut (w.insert shape vals)
  | .extend shape rows => fstOut (w.extend shape rows)
  | .remove id => fstOut (w.remove id)
  | .clear order => fstOut (w.clear order)
  | .add id c v => fstOut (w.entryAdd id c v)
  | .del id c => fstOut (w.entryRemove id c)
  | .write id c v => fstOut (w.write id c v)
  | .reserve shape => w.reserve shape
  | .shrink => .ok w.shrinkToFit

def run (w : World) : List Op → Out World
  | [] => .ok w
  | op :: ops =>
    match step w op with
    | .ok w' => run w' ops
    | .ub e => .ub e

theorem fstOut_ok {α β} {x : Out (α × β)} {a : α} (h : fstOut x = .ok a) : ∃ b, x = .ok (a, b) := by
  cases x with
  | ub e => simp [fstOut] at h
  | ok p => obtain ⟨a', b⟩ := p; simp [fstOut] at h; subst h; exact ⟨b, rfl⟩

theorem step_inv {w w' : World} (hi : Inv w) {op : Op} (e : step w op = .ok w') : Inv w' := by
  cases op with
  | insert shape vals => obtain ⟨_, h⟩ := fstOut_ok e; exact insert_inv hi h
  | extend shape rows => obtain ⟨_, h⟩ := fstOut_ok e; exact extend_inv hi h
  | remove id => obtain ⟨_, h⟩ := fstOut_ok e; exact remove_inv hi h
  | clear order =>
    obtain ⟨d, h⟩ := fstOut_ok e
    obtain ⟨w1, d1, h1, hi1⟩ := clear_inv hi order
    rw [h1] at h; cases h; exact hi1
  | add id c v => obtain ⟨_, h⟩ := fstOut_ok e; exact entryAdd_inv hi h
  | del id c => obtain ⟨_, h⟩ := fstOut_ok e; exact entryRemove_inv hi h
  | write id c v => obtain ⟨_, h⟩ := fstOut_ok e; exact write_inv hi h
  | reserve shape => exact reserve_inv hi e
  | shrink => simp [step] at e; subst e; exact shrink_inv hi

theorem run_inv {w w' : World} (hi : Inv w) (ops : List Op) (e : run w ops = .ok w') : Inv w' := by
  induction ops generalizing w with
  | nil => simp [run] at e; subst e; exact hi
  | cons op ops ih =>
    simp only [run] at e
    cases h : step w op with
    | ub x => simp [h] at e
    | ok w1 => simp only [h] at e; exact ih (step_inv hi h) e

theorem inv_init (n : Nat) (res : List Val) : Inv (World.init n res) := by
  constructor <;> simp [World.init, Alloc.empty]

end Brood
