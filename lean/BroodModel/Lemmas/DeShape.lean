/-
  Shape of what the deserializer's visitors accept: whatever the token stream, a table returned by
  `Serde.deArch` has a mask of the registry's length, one column per set bit, columns exactly as
  long as the identifier list and holding only values of their component's type; the tables
  returned by `Serde.deArchs` have consecutive handles and pairwise different masks.
-/
import BroodModel.Lemmas.FromParts
import BroodModel.Lemmas.Mask

set_option linter.unusedSimpArgs false
set_option linter.unusedVariables false

namespace Brood
namespace Serde

/-! ### combinators -/

theorem elem_ok {α} {endTok : Tok} {p : P α} {ts ts' : List Tok} {x : α}
    (h : elem endTok p ts = .ok (x, ts')) : ∃ ts1, p ts1 = .ok (x, ts') := by
  unfold elem at h
  split at h
  · cases h
  · cases h
  · exact ⟨_, h⟩

theorem elems_spec {α} {endTok : Tok} {p : P α} (k : Nat) :
    ∀ {ts ts' : List Tok} {xs : List α}, elems endTok p k ts = .ok (xs, ts') →
      xs.length = k ∧ ∀ x ∈ xs, ∃ t1 t2, p t1 = .ok (x, t2) := by
  induction k with
  | zero =>
    intro ts ts' xs h
    simp [elems] at h
    obtain ⟨rfl, _⟩ := h
    exact ⟨rfl, by simp⟩
  | succ k ih =>
    intro ts ts' xs h
    simp only [elems] at h
    cases h1 : elem endTok p ts with
    | error e => simp [h1] at h
    | ok r =>
      obtain ⟨x, t1⟩ := r
      simp only [h1] at h
      cases h2 : elems endTok p k t1 with
      | error e => simp [h2] at h
      | ok r2 =>
        obtain ⟨ys, t2⟩ := r2
        simp only [h2, Except.ok.injEq, Prod.mk.injEq] at h
        obtain ⟨rfl, _⟩ := h
        obtain ⟨i1, i2⟩ := ih h2
        obtain ⟨t0, hp⟩ := elem_ok h1
        refine ⟨by simp [i1], ?_⟩
        intro y hy
        rcases List.mem_cons.mp hy with rfl | hy
        · exact ⟨_, _, hp⟩
        · exact i2 y hy

theorem tupleOf_spec {α} {len : Nat} {p : P α} {ts ts' : List Tok} {xs : List α}
    (h : tupleOf len p ts = .ok (xs, ts')) :
    xs.length = len ∧ ∀ x ∈ xs, ∃ t1 t2, p t1 = .ok (x, t2) := by
  unfold tupleOf at h
  cases h1 : expectTup len ts with
  | error e => simp [h1] at h
  | ok r =>
    simp only [h1] at h
    cases h2 : elems Tok.tupE p len r.2 with
    | error e => simp [h2] at h
    | ok r2 =>
      obtain ⟨ys, t2⟩ := r2
      simp only [h2] at h
      cases h3 : assertEnded false Tok.tupE t2 with
      | error e => simp [h3] at h
      | ok r3 =>
        simp only [h3, Except.ok.injEq, Prod.mk.injEq] at h
        obtain ⟨rfl, _⟩ := h
        exact elems_spec len h2

theorem deVal_ty {k : Kinds} {e ty : Nat} {ts ts' : List Tok} {v : Val}
    (h : deVal k e ty ts = .ok (v, ts')) : v.ty = ty := by
  unfold deVal at h
  cases h1 : deU64 ts with
  | error err => simp [h1] at h
  | ok r =>
    simp only [h1, Except.ok.injEq, Prod.mk.injEq] at h
    obtain ⟨rfl, _⟩ := h
    split <;> rfl

theorem unpack_length (n : Nat) (bytes : List Nat) : (Mask.unpack n bytes).length = n := by
  simp [Mask.unpack]

theorem deMask_len {n : Nat} {ts ts' : List Tok} {m : Mask} (h : deMask n ts = .ok (m, ts')) :
    m.length = n := by
  unfold deMask at h
  cases h1 : tupleOf ((n + 7) / 8) deU8 ts with
  | error e => simp [h1] at h
  | ok r =>
    simp only [h1] at h
    split at h
    · cases h
    · simp only [Except.ok.injEq, Prod.mk.injEq] at h
      obtain ⟨rfl, _⟩ := h
      exact unpack_length _ _

/-! ### rows and columns -/

theorem deRow_go_tys (k : Kinds) (e : Nat) (comps : List Nat) :
    ∀ {ts ts' : List Tok} {vs : List Val}, deRow.go k e comps ts = .ok (vs, ts') →
      vs.map (·.ty) = comps := by
  induction comps with
  | nil =>
    intro ts ts' vs h
    simp [deRow.go] at h
    obtain ⟨rfl, _⟩ := h; rfl
  | cons c cs ih =>
    intro ts ts' vs h
    simp only [deRow.go] at h
    cases h1 : elem Tok.tupE (deVal k e c) ts with
    | error err => simp [h1] at h
    | ok r =>
      obtain ⟨v, t1⟩ := r
      simp only [h1] at h
      cases h2 : deRow.go k e cs t1 with
      | error err => simp [h2] at h
      | ok r2 =>
        obtain ⟨ws, t2⟩ := r2
        simp only [h2, Except.ok.injEq, Prod.mk.injEq] at h
        obtain ⟨rfl, _⟩ := h
        obtain ⟨t0, hp⟩ := elem_ok h1
        simp [deVal_ty hp, ih h2]

theorem deRow_tys {k : Kinds} {e : Nat} {comps : List Nat} {ts ts' : List Tok} {id : Ident}
    {vs : List Val} (h : deRow k e comps ts = .ok ((id, vs), ts')) : vs.map (·.ty) = comps := by
  unfold deRow at h
  cases h1 : expectTup (comps.length + 1) ts with
  | error err => simp [h1] at h
  | ok r1 =>
    simp only [h1] at h
    cases h2 : elem Tok.tupE deIdent r1.2 with
    | error err => simp [h2] at h
    | ok r2 =>
      simp only [h2] at h
      cases h3 : deRow.go k e comps r2.2 with
      | error err => simp [h3] at h
      | ok r3 =>
        obtain ⟨ws, t3⟩ := r3
        simp only [h3] at h
        cases h4 : assertEnded false Tok.tupE t3 with
        | error err => simp [h4] at h
        | ok r4 =>
          simp only [h4, Except.ok.injEq, Prod.mk.injEq] at h
          obtain ⟨⟨_, rfl⟩, _⟩ := h
          exact deRow_go_tys k e comps h3

theorem deCols_spec (k : Kinds) (e length : Nat) (comps : List Nat) :
    ∀ {ts ts' : List Tok} {cols : List (List Val)}, deCols k e length comps ts = .ok (cols, ts') →
      cols.length = comps.length ∧
      ∀ (j : Nat) (c : List Val) (ty : Nat), cols[j]? = some c → comps[j]? = some ty →
        c.length = length ∧ ∀ v ∈ c, v.ty = ty := by
  induction comps with
  | nil =>
    intro ts ts' cols h
    simp [deCols] at h
    obtain ⟨rfl, _⟩ := h
    exact ⟨rfl, by simp⟩
  | cons c cs ih =>
    intro ts ts' cols h
    simp only [deCols] at h
    cases h1 : elem Tok.tupE (tupleOf length (deVal k e c)) ts with
    | error err => simp [h1] at h
    | ok r =>
      obtain ⟨col, t1⟩ := r
      simp only [h1] at h
      cases h2 : deCols k e length cs t1 with
      | error err => simp [h2] at h
      | ok r2 =>
        obtain ⟨rest, t2⟩ := r2
        simp only [h2, Except.ok.injEq, Prod.mk.injEq] at h
        obtain ⟨rfl, _⟩ := h
        obtain ⟨i1, i2⟩ := ih h2
        obtain ⟨t0, hp⟩ := elem_ok h1
        obtain ⟨l1, l2⟩ := tupleOf_spec hp
        refine ⟨by simp [i1], ?_⟩
        intro j c' ty hj hty
        cases j with
        | zero =>
          simp at hj hty; subst hj; subst hty
          refine ⟨l1, ?_⟩
          intro v hv
          obtain ⟨ta, tb, hv'⟩ := l2 v hv
          exact deVal_ty hv'
        | succ j =>
          simp at hj hty
          exact i2 j c' ty hj hty

theorem transpose_spec {comps : List Nat} {rows : List (List Val)}
    (hr : ∀ r ∈ rows, r.map (·.ty) = comps) :
    (transpose comps.length rows).length = comps.length ∧
    ∀ (j : Nat) (c : List Val) (ty : Nat), (transpose comps.length rows)[j]? = some c →
      comps[j]? = some ty → c.length = rows.length ∧ ∀ v ∈ c, v.ty = ty := by
  unfold transpose
  refine ⟨by simp, ?_⟩
  intro j c ty hj hty
  rw [List.getElem?_map] at hj
  have hjl : j < comps.length := (List.getElem?_eq_some_iff.mp hty).1
  rw [List.getElem?_range hjl] at hj
  simp only [Option.map_some, Option.some.injEq] at hj
  subst hj
  have hcell : ∀ r ∈ rows, ∃ v, r[j]? = some v ∧ v.ty = ty := by
    intro r hrm
    have h1 := hr r hrm
    have hl : r.length = comps.length := by rw [← h1]; simp
    have hjr : j < r.length := by omega
    refine ⟨r[j], List.getElem?_eq_getElem hjr, ?_⟩
    have : (r.map (·.ty))[j]? = some ty := by rw [h1]; exact hty
    rw [List.getElem?_map, List.getElem?_eq_getElem hjr] at this
    simpa using this
  constructor
  · clear hr
    induction rows with
    | nil => rfl
    | cons r rs ih =>
      obtain ⟨v, hv, _⟩ := hcell r (by simp)
      simp only [List.filterMap_cons, hv, List.length_cons]
      rw [ih (fun x hx => hcell x (by simp [hx]))]
  · intro v hv
    obtain ⟨r, hrm, hrv⟩ := List.mem_filterMap.mp hv
    obtain ⟨v', hv', hty'⟩ := hcell r hrm
    rw [hv'] at hrv; cases hrv; exact hty'

/-! ### tables -/

/-- Well-formedness of a table that does not depend on the rest of the world. -/
structure ArchShape (n : Nat) (a : Arch) : Prop where
  mask_len : a.mask.length = n
  cols_len : a.cols.length = a.mask.count
  cols_ok : ∀ (j : Nat) (c : List Val) (ty : Nat), a.cols[j]? = some c → a.mask.comps[j]? = some ty →
      c.length = a.ids.length ∧ ∀ v ∈ c, v.ty = ty

theorem ArchShape.cols_all_len {n : Nat} {a : Arch} (s : ArchShape n a) :
    ∀ c ∈ a.cols, c.length = a.ids.length := by
  intro c hc
  obtain ⟨j, hj⟩ := List.getElem?_of_mem hc
  have hjl : j < a.cols.length := (List.getElem?_eq_some_iff.mp hj).1
  have : j < a.mask.comps.length := by rw [comps_length, ← s.cols_len]; exact hjl
  exact (s.cols_ok j c _ hj (List.getElem?_eq_getElem this)).1

theorem deArch_shape {k : Kinds} {hr : Bool} {n e h : Nat} {ts ts' : List Tok} {a : Arch}
    (hd : deArch k hr n e h ts = .ok (a, ts')) : a.handle = h ∧ ArchShape n a := by
  unfold deArch at hd
  split at hd
  · cases hd
  · rename_i name ts0
    split at hd
    · cases hd
    · cases h1 : expectTup 3 ts0 with
      | error err => simp [h1] at hd
      | ok r1 =>
        simp only [h1] at hd
        cases h2 : elem Tok.tupE (deMask n) r1.2 with
        | error err => simp [h2] at hd
        | ok r2 =>
          obtain ⟨mask, t2⟩ := r2
          simp only [h2] at hd
          cases h3 : elem Tok.tupE deU64 t2 with
          | error err => simp [h3] at hd
          | ok r3 =>
            obtain ⟨length, t3⟩ := r3
            simp only [h3] at hd
            obtain ⟨tm, hm⟩ := elem_ok h2
            have hml := deMask_len hm
            cases h4 : elem Tok.tupE (if hr then deArchBodyRows k e h mask length
                else deArchBodyCols k e h mask length) t3 with
            | error err => simp [h4] at hd
            | ok r4 =>
              obtain ⟨a4, t4⟩ := r4
              simp only [h4] at hd
              cases h5 : assertEnded false Tok.tupE t4 with
              | error err => simp [h5] at hd
              | ok r5 =>
                simp only [h5, Except.ok.injEq, Prod.mk.injEq] at hd
                obtain ⟨rfl, _⟩ := hd
                obtain ⟨tb, hb⟩ := elem_ok h4
                cases hr with
                | true =>
                  simp only [if_true] at hb
                  unfold deArchBodyRows at hb
                  cases h6 : tupleOf length (deRow k e mask.comps) tb with
                  | error err => simp [h6] at hb
                  | ok r6 =>
                    obtain ⟨rows, t6⟩ := r6
                    simp only [h6, Except.ok.injEq, Prod.mk.injEq] at hb
                    obtain ⟨rfl, _⟩ := hb
                    obtain ⟨l1, l2⟩ := tupleOf_spec h6
                    have hrows : ∀ r ∈ rows.map (·.2), r.map (·.ty) = mask.comps := by
                      intro r hrm
                      obtain ⟨p, hp, rfl⟩ := List.mem_map.mp hrm
                      obtain ⟨ta, tb', hpp⟩ := l2 p hp
                      exact deRow_tys (id := p.1) (vs := p.2) hpp
                    obtain ⟨s1, s2⟩ := transpose_spec hrows
                    refine ⟨rfl, ⟨hml, by rw [s1, comps_length], ?_⟩⟩
                    intro j c ty hj hty
                    obtain ⟨q1, q2⟩ := s2 j c ty hj hty
                    exact ⟨by simpa using q1, q2⟩
                | false =>
                  simp only [Bool.false_eq_true, if_false] at hb
                  unfold deArchBodyCols at hb
                  cases g1 : expectTup (mask.comps.length + 1) tb with
                  | error err => simp [g1] at hb
                  | ok q1 =>
                    simp only [g1] at hb
                    cases g2 : elem Tok.tupE (tupleOf length deIdent) q1.2 with
                    | error err => simp [g2] at hb
                    | ok q2 =>
                      obtain ⟨ids, tq2⟩ := q2
                      simp only [g2] at hb
                      cases g3 : deCols k e length mask.comps tq2 with
                      | error err => simp [g3] at hb
                      | ok q3 =>
                        obtain ⟨cols, tq3⟩ := q3
                        simp only [g3] at hb
                        cases g4 : assertEnded false Tok.tupE tq3 with
                        | error err => simp [g4] at hb
                        | ok q4 =>
                          simp only [g4, Except.ok.injEq, Prod.mk.injEq] at hb
                          obtain ⟨rfl, _⟩ := hb
                          obtain ⟨ti, hids⟩ := elem_ok g2
                          obtain ⟨il, _⟩ := tupleOf_spec hids
                          obtain ⟨c1, c2⟩ := deCols_spec k e length mask.comps g3
                          refine ⟨rfl, ⟨hml, by rw [c1, comps_length], ?_⟩⟩
                          intro j c ty hj hty
                          obtain ⟨q1', q2'⟩ := c2 j c ty hj hty
                          exact ⟨by rw [q1']; exact il.symm, q2'⟩
  · cases hd

/-- The accumulated tables of `deArchs`: consecutive handles from `h0`, well-shaped, pairwise
different masks. -/
structure ArchsOk (n h0 : Nat) (l : List Arch) : Prop where
  handles : ∀ (j : Nat) (a : Arch), l[j]? = some a → a.handle = h0 + j
  shape : ∀ a ∈ l, ArchShape n a
  masks : (l.map (·.mask)).Nodup

theorem deArchs_spec (k : Kinds) (hr : Bool) (n e h0 : Nat) (fuel : Nat) :
    ∀ {acc out : List Arch} {ts ts' : List Tok}, ArchsOk n h0 acc →
      deArchs k hr n e fuel (h0 + acc.length) acc ts = .ok (out, ts') → ArchsOk n h0 out := by
  induction fuel with
  | zero => intro acc out ts ts' _ h; simp [deArchs] at h
  | succ fuel ih =>
    intro acc out ts ts' hacc h
    simp only [deArchs] at h
    cases h1 : hasElem Tok.seqE ts with
    | error err => simp [h1] at h
    | ok r =>
      obtain ⟨b, t1⟩ := r
      cases b with
      | false =>
        simp only [h1, Except.ok.injEq, Prod.mk.injEq] at h
        obtain ⟨rfl, _⟩ := h
        exact hacc
      | true =>
        simp only [h1] at h
        cases h2 : deArch k hr n e (h0 + acc.length) t1 with
        | error err => simp [h2] at h
        | ok r2 =>
          obtain ⟨a, t2⟩ := r2
          simp only [h2] at h
          split at h
          · cases h
          · rename_i hdup
            obtain ⟨ah, ash⟩ := deArch_shape h2
            have hacc' : ArchsOk n h0 (acc ++ [a]) := by
              refine ⟨?_, ?_, ?_⟩
              · intro j b hj
                by_cases hjl : j < acc.length
                · rw [List.getElem?_append_left hjl] at hj
                  exact hacc.handles j b hj
                · rw [List.getElem?_append_right (by omega)] at hj
                  have : j - acc.length = 0 := by
                    cases hq : j - acc.length with
                    | zero => rfl
                    | succ q => rw [hq] at hj; simp at hj
                  rw [this] at hj
                  simp at hj
                  subst hj
                  rw [ah]; omega
              · intro b hb
                rcases List.mem_append.mp hb with hb | hb
                · exact hacc.shape b hb
                · simp at hb; subst hb; exact ash
              · rw [List.map_append, List.nodup_append]
                refine ⟨hacc.masks, by simp, ?_⟩
                intro m hm m' hm' e'
                simp at hm'
                subst hm'
                obtain ⟨b, hb, hbm⟩ := List.mem_map.mp hm
                apply hdup
                apply List.any_eq_true.mpr
                exact ⟨b, hb, by simp [hbm, e']⟩
            have hlen : h0 + acc.length + 1 = h0 + (acc ++ [a]).length := by simp; omega
            rw [hlen] at h
            exact ih hacc' h

end Serde
end Brood
