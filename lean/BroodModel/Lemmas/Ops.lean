/-
  Histories of world operations: the op language the history theorems quantify over, its step
  function on the L1 model, and the lift of one-step preservation to every reachable state.
-/
import BroodModel.Lemmas.Insert
import BroodModel.Lemmas.Remove

namespace Brood

/-- Public operations of a world (the ones whose preservation of `Inv` is proved so far; the
property files say which operations are still covered by the correspondence check only). -/
inductive Op
  | insert (shape : List Nat) (vals : List Val)
  | remove (id : Ident)
  | reserve (shape : List Nat)
deriving Repr

/-- One step. Results (identifiers, dropped values) are not needed for the invariant. -/
def step (w : World) : Op → Out World
  | .insert shape vals =>
    match w.insert shape vals with
    | .ok (w', _) => .ok w'
    | .ub e => .ub e
  | .remove id =>
    match w.remove id with
    | .ok (w', _) => .ok w'
    | .ub e => .ub e
  | .reserve shape => w.reserve shape

def run (w : World) : List Op → Out World
  | [] => .ok w
  | op :: ops =>
    match step w op with
    | .ok w' => run w' ops
    | .ub e => .ub e

theorem step_inv {w w' : World} (hi : Inv w) {op : Op} (e : step w op = .ok w') : Inv w' := by
  cases op with
  | insert shape vals =>
    simp only [step] at e
    cases h : w.insert shape vals with
    | ub x => simp [h] at e
    | ok p => obtain ⟨w1, id⟩ := p; simp [h] at e; subst e; exact insert_inv hi h
  | remove id =>
    simp only [step] at e
    cases h : w.remove id with
    | ub x => simp [h] at e
    | ok p => obtain ⟨w1, d⟩ := p; simp [h] at e; subst e; exact remove_inv hi h
  | reserve shape => exact reserve_inv hi e

theorem run_inv {w w' : World} (hi : Inv w) (ops : List Op) (e : run w ops = .ok w') : Inv w' := by
  induction ops generalizing w with
  | nil => simp [run] at e; subst e; exact hi
  | cons op ops ih =>
    simp only [run] at e
    cases h : step w op with
    | ub x => simp [h] at e
    | ok w1 => simp only [h] at e; exact ih (step_inv hi h) e

theorem inv_init (n : Nat) (res : List Val) : Inv (World.init n res) := by
  constructor <;> simp [World.init, Alloc.empty]

end Brood
