import BroodModel.Basic
import BroodModel.Alloc
import BroodModel.World
import BroodModel.Inv
import BroodModel.Dump
import BroodModel.Query
import BroodModel.Spec
import BroodModel.Serde
