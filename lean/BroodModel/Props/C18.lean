/-
  C18 — Run-time safety preconditions are enforced at the safe API boundary.

  The shape of `assert_no_duplicates`, of `check_len`/`check_len_against`, of `Batch::new` and the
  constructor graph of `World` are re-extracted from the source on every run
  (Generated/Tables.lean); the models below are parameterised by the extracted shape and the
  theorems require the shape the current source has.  The correspondence check runs every
  constructor on generated registries with a repeated type and `Batch::new` on every combination
  of column lengths.
-/
import BroodModel.Ctor

namespace Brood
open Static Generated

theorem assertNoDup_iff (ts seen : List Nat) :
    assertNoDup (true, true) ts seen = true ↔ (ts.Nodup ∧ ∀ t ∈ ts, t ∉ seen) := by
  induction ts generalizing seen with
  | nil => simp [assertNoDup]
  | cons t ts ih =>
    simp only [assertNoDup, if_true, Bool.and_eq_true, Bool.not_eq_true', ih, List.nodup_cons]
    constructor
    · rintro ⟨h1, h2, h3⟩
      refine ⟨⟨fun hm => ?_, h2⟩, ?_⟩
      · exact (h3 t hm) (by simp)
      · intro x hx
        simp at hx
        rcases hx with rfl | hx
        · simpa using h1
        · intro hs; exact h3 x hx (by simp [hs])
    · rintro ⟨⟨h1, h2⟩, h3⟩
      refine ⟨by simpa using h3 t (by simp), h2, ?_⟩
      intro x hx hs
      simp at hs
      rcases hs with rfl | hs
      · exact h1 hx
      · exact h3 x (by simp [hx]) hs

/-- **The duplicate check accepts exactly the duplicate-free registries** — for every registry
length, with the shape the current source has. -/
theorem C18_nodup (tys : List Nat) (h : assertNoDupShape = (true, true)) :
    assertNoDup assertNoDupShape tys [] = true ↔ tys.Nodup := by
  rw [h, assertNoDup_iff]; simp

theorem C18_shape_now : assertNoDupShape = (true, true) := by decide

/-- **Every way of obtaining a `World` passes the check**: the only functions under src/world that
build a `World` by struct literal are `from_raw_parts` (which asserts) and `clone` (which copies a
world that already exists); `new`, `with_resources`, `default` and deserialization reach a literal
only through `from_raw_parts`.  (`World`'s fields are private to `world/`, so there is no other
literal.) -/
theorem C18_all_ctors :
    (∀ f ∈ worldLiterals, f = "mod::from_raw_parts" ∨ f = "impl_clone::clone") ∧
    worldAsserts.lookup "mod::from_raw_parts" = some true ∧
    worldCalls.lookup "mod::with_resources" = some ["from_raw_parts"] ∧
    worldCalls.lookup "mod::new" = some ["with_resources"] ∧
    worldCalls.lookup "impl_default::default" = some ["with_resources"] ∧
    worldCalls.lookup "impl_serde::visit_seq" = some ["from_raw_parts"] := by decide

theorem checkLenAgainst_iff (len : Nat) (cs : List Nat) :
    checkLenAgainst true true len cs = true ↔ ∀ c ∈ cs, c = len := by
  induction cs with
  | nil => simp [checkLenAgainst]
  | cons c cs ih => simp [checkLenAgainst, ih]

/-- **`Batch::new` accepts exactly the batches whose columns all have the first column's
length**, whatever the number of columns; otherwise it panics (`assert!`), and the unchecked
constructor is `unsafe`.  Hence `extend` never stores ragged columns. -/
theorem C18_batch (cols : List Nat) (h : batchShape = [true, true, true, true, true, true]) :
    (batchShape.getD 0 false = true) ∧ (batchShape.getD 1 false = true) ∧
    (checkLen batchShape cols = true ↔ ∀ c ∈ cols.tail, c = cols.headD 0) := by
  rw [h]
  refine ⟨rfl, rfl, ?_⟩
  cases cols with
  | nil => simp [checkLen]
  | cons c cs => simp [checkLen, checkLenAgainst_iff]

theorem C18_batch_shape_now : batchShape = [true, true, true, true, true, true] := by decide

example : checkLen batchShape [2, 2, 1] = false := by decide
example : assertNoDup assertNoDupShape [0, 1, 0, 2] [] = false := by decide

end Brood

#print axioms Brood.C18_nodup
#print axioms Brood.C18_shape_now
#print axioms Brood.C18_all_ctors
#print axioms Brood.C18_batch
#print axioms Brood.C18_batch_shape_now
