//! Ops that are described on the line rather than by an enum variant (queries, schedules …).
use crate::core::*;
use crate::family::Family;

pub fn exec_raw<F: Family>(_it: &mut Interp<F>, _w: usize, _name: &str, _args: &[String]) -> Option<String> {
    None
}
