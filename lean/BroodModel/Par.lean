/-
  BroodModel.Par — parallel iteration as arbitrary split trees (src/query/result/par_iter.rs,
  src/query/view/par/seal/repeat.rs, src/archetypes/par_iter.rs).

  rayon's plumbing is abstracted as: an *arbitrary* binary split tree over a sequence of items;
  each leaf is folded sequentially by a folder, partial results are reduced.  `RepeatNone` is the
  producer of `None`s standing in for an absent `Option<&mut C>` column.
-/
namespace Brood

/-- A split tree over a sequence: where the producer is split and how far. -/
inductive Split where
  | leaf
  | node (idx : Nat) (l r : Split)
deriving Repr, Inhabited

/-- The leaves a split tree cuts a list into (`split_at(i)` gives the first `i` items and the rest). -/
def Split.pieces {α} : Split → List α → List (List α)
  | .leaf, xs => [xs]
  | .node i l r, xs => l.pieces (xs.take i) ++ r.pieces (xs.drop i)

/-- Folding every leaf and reducing by concatenation: what a `collect` over the tree sees. -/
def Split.collect {α} (t : Split) (xs : List α) : List α := (t.pieces xs).flatten

/-- `RepeatNoneProducer { count }`: `split_at(i)` yields counts `i` and `count - i`; `into_iter`
yields `count` `None`s. -/
def repeatNone (count : Nat) : List (Option Nat) := List.replicate count none

def repeatNoneSplit (count i : Nat) : Nat × Nat := (min i count, count - i)

/-- Zipping a column producer with the filler, as `MultiZip` does: both sides are split at the
same index, leaves are zipped. -/
def zipPieces {α β} (t : Split) (xs : List α) (ys : List β) : List (α × β) :=
  (List.zipWith List.zip (t.pieces xs) (t.pieces ys)).flatten

end Brood
