/-
  C12 — Independent tasks are actually allowed to run in parallel; schedules terminate.

  The conflict tables are *generated from the source on every run* (Generated/Tables.lean); the
  theorems below are re-checked by the kernel against them.  `stages` is the greedy in-order
  stager of stager.rs; the correspondence check compares it with `type_name::<S::Stages>()` of
  real schedule types.  Termination: `stages`, `runStages` are structurally recursive total
  functions (Lean accepts them); that the real `run_schedule` returns on a 1-thread pool is a
  run-time fact about rayon, exercised (with a timeout) by the correspondence run — PARTIAL.
-/
import BroodModel.Lemmas.SchedDyn

namespace Brood
open Static Generated

/-- **Precision of the conflict table** (the direction C08 does not need): the verifier cuts
*only* when one side of a shared component is mutable; two immutable (or optional immutable)
accesses, or a component the stage does not claim, never cut. -/
theorem C12_verifier_precise (new : VK) (old : Old) (h : new ≠ .ident) (ho : old ≠ .claimed .ident) :
    lookupV verifierTable new old = some .cut → conflictKinds new old = true := by
  rw [verifier_table_exact new old h ho]
  by_cases hc : conflictKinds new old <;> simp [hc]

/-- The merger keeps `Append` when both component and resource decisions append. -/
theorem C12_merger_precise : lookupM mergerTable .append .append = some .append := rfl

/-- **Independent tasks share a stage**: a task that conflicts with no task of the current group
is appended to it, not cut off. -/
theorem C12_independent_appended (stage : List Task) (t : Task) (h : stageConflict stage t = false) :
    stageDecision verifierTable mergerTable stage t = .append := by
  rw [stageDecision_eq]; simp [h]

/-- **The schedule is not silently serialised**: every boundary between two consecutive groups
is caused by a conflict between the first task of the later group and some task of the earlier. -/
theorem C12_boundaries_justified (ts : List Task) :
    Justified (stages verifierTable mergerTable ts) :=
  stagesAux_justified ts []

/-- **Run time: an independent next-stage task is started early, not made to wait**: if its
component claims conflict with no running task on any archetype both match, the add-on check
accepts them (the converse of the C08 safety direction; the claim map is the exact join of the
running tasks' claims, so nothing is refused because of a stale or over-approximated claim). -/
theorem C12_independent_add_on_accepted {n : Nat} {masks : List Mask} (hm : masks.Nodup) {cm : ClaimMap}
    {ts : List Task} (me : MapExact n masks cm ts) (u : Task)
    (h : ∀ k ∈ masks, u.matchesArch k = true → ∀ t ∈ ts, t.matchesArch k = true →
      vecOk (u.claimVec n) (t.claimVec n) = true) :
    ∃ cm', tryAddClaims claimTryMerge n masks u cm = some cm' ∧ MapExact n masks cm' (ts ++ [u]) := by
  obtain ⟨e1, e2⟩ := tryAdd_exact hm me u
  cases hc : tryAddClaims claimTryMerge n masks u cm with
  | some cm' => exact ⟨cm', rfl, (e1 cm' hc).2⟩
  | none =>
    obtain ⟨k, hk, t, ht, h1, h2, h3⟩ := e2 hc
    rw [h k hk h1 t ht h2] at h3; cases h3

/-- Every task is staged exactly once and in the order written (no task lost or duplicated). -/
theorem C12_stages_flatten (ts : List Task) : (stages verifierTable mergerTable ts).flatten = ts :=
  stages_flatten _ _ ts

/-- Non-vacuity: two readers of component 0 share a stage; a writer is cut off. -/
example :
    (stages verifierTable mergerTable
      [⟨[.ref 0], .none, [], []⟩, ⟨[.oref 0, .ident], .none, [], []⟩, ⟨[.mut 0], .none, [], []⟩]).map List.length
      = [2, 1] := by decide

end Brood

#print axioms Brood.C12_verifier_precise
#print axioms Brood.C12_merger_precise
#print axioms Brood.C12_independent_appended
#print axioms Brood.C12_boundaries_justified
#print axioms Brood.C12_stages_flatten
#print axioms Brood.C12_independent_add_on_accepted
