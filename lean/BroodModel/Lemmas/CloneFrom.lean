/-
  `World::clone_from`: the per-source-table loop (`cloneFromStep`) keeps the destination's tables
  well-formed and records, for every source table processed, the destination table that now holds
  its rows; the finished destination satisfies the invariant, denotes the source's map (values
  copied) and compares equal to the source.
-/
import BroodModel.Lemmas.Clone
import BroodModel.Lemmas.DeShape
import BroodModel.Lemmas.Ledger

set_option linter.unusedSimpArgs false
set_option linter.unusedVariables false

namespace Brood
open Alloc Serde

/-- Loop invariant of `Archetypes::clone_from` after the source tables `proc` have been handled. -/
structure CFOk (n e : Nat) (proc : List Arch) (st : World.CF) : Prop where
  handles_nodup : (st.d.archs.map (·.handle)).Nodup
  masks_nodup : (st.d.archs.map (·.mask)).Nodup
  shape : ∀ a ∈ st.d.archs, ArchShape n a ∧ a.handle < st.d.next ∧ (a.mask, a.handle) ∈ st.d.foreign
  foreign : ∀ p ∈ st.d.foreign, lookupOk st.d p = true
  typeIds : ∀ p ∈ st.d.typeIds, lookupOk st.d p = true
  plen : st.pairs.length = proc.length
  pairs : ∀ (j : Nat) (sa : Arch), proc[j]? = some sa →
    ∃ t T, st.pairs[j]? = some (sa.handle, t) ∧ st.d.findArch t = some T ∧ T.mask = sa.mask ∧
      T.ids = sa.ids ∧ T.cols = sa.cols.map (fun c => c.map (cloneVal e))
  written_sum :
    (st.d.archs.map (fun a => if (st.pairs.map (·.2)).contains a.handle then a.ids.length else 0)).sum =
      (proc.map (·.ids.length)).sum

theorem archShape_of_ok {w : World} {a : Arch} (ok : ArchOk w a) : ArchShape w.n a :=
  ⟨ok.mask_len, ok.cols_len, ok.cols_ok⟩

theorem archShape_clone {n e : Nat} {a : Arch} (s : ArchShape n a) (b : Arch) (hm : b.mask = a.mask)
    (hi : b.ids = a.ids) (hc : b.cols = a.cols.map (fun c => c.map (cloneVal e))) : ArchShape n b := by
  refine ⟨by rw [hm]; exact s.mask_len, by rw [hc, hm]; simp [s.cols_len], ?_⟩
  intro j c ty hj hty
  rw [hc, List.getElem?_map] at hj
  rw [hm] at hty
  cases hcj : a.cols[j]? with
  | none => simp [hcj] at hj
  | some c0 =>
    simp [hcj] at hj
    subst hj
    obtain ⟨o1, o2⟩ := s.cols_ok j c0 ty hcj hty
    refine ⟨by rw [hi]; simp [o1], ?_⟩
    intro v hv
    obtain ⟨v0, hv0, rfl⟩ := List.mem_map.mp hv
    exact o2 v0 hv0

theorem cfHit_some {d : World} {m : Mask} {da : Arch} (hf : ∀ p ∈ d.foreign, lookupOk d p = true)
    (h : World.cfHit d m = some da) : da ∈ d.archs ∧ da.mask = m ∧ d.findArch da.handle = some da := by
  unfold World.cfHit at h
  cases hl : lookupH d.foreign m with
  | none => simp [hl] at h
  | some hd =>
    simp only [hl] at h
    obtain ⟨y, hfy, hym⟩ := lookup_mask (hf _ (lookupH_some hl))
    simp only at hfy hym
    rw [h] at hfy; cases hfy
    obtain ⟨hm, hh⟩ := findArch_some h
    exact ⟨hm, hym, by rw [hh]; exact h⟩

theorem cfHit_none {d : World} {m : Mask} (hf : ∀ p ∈ d.foreign, lookupOk d p = true)
    (h : World.cfHit d m = none) : ∀ p ∈ d.foreign, p.1 ≠ m := by
  unfold World.cfHit at h
  cases hl : lookupH d.foreign m with
  | none => exact lookupH_none hl
  | some hd =>
    simp only [hl] at h
    obtain ⟨y, hfy, _⟩ := lookup_mask (hf _ (lookupH_some hl))
    simp only at hfy
    rw [h] at hfy; cases hfy

theorem initCF_ok {d : World} (hi : Inv d) (e : Nat) : CFOk d.n e [] ⟨d, [], []⟩ := by
  refine ⟨hi.handles_nodup, hi.masks_nodup, ?_, hi.foreign, hi.typeIds, rfl, by simp, ?_⟩
  · intro a ha
    have ok := hi.archOk ha
    exact ⟨archShape_of_ok ok, ok.handle_lt, ok.foreign⟩
  · show (d.archs.map (fun a => if ([] : List Nat).contains a.handle then a.ids.length else 0)).sum = 0
    induction d.archs with
    | nil => rfl
    | cons a as ih => simpa using ih


/-- Changing the summand at one table (identified by its handle) only. -/
theorem sum_map_change_one (f g : Arch → Nat) {l : List Arch} {a : Arch} (hn : (l.map (·.handle)).Nodup)
    (ha : a ∈ l) (hfg : ∀ b ∈ l, b.handle ≠ a.handle → g b = f b) :
    (l.map g).sum + f a = (l.map f).sum + g a := by
  induction l with
  | nil => simp at ha
  | cons b bs ih =>
    simp only [List.map_cons, List.nodup_cons] at hn
    simp only [List.map_cons, List.sum_cons]
    rcases List.mem_cons.mp ha with rfl | hmem
    · have hrest : bs.map g = bs.map f := by
        apply List.map_congr_left
        intro x hx
        have hne : x.handle ≠ a.handle := fun e => hn.1 (List.mem_map.mpr ⟨x, hx, e⟩)
        exact hfg x (by simp [hx]) hne
      rw [hrest]; omega
    · have hne : b.handle ≠ a.handle := fun e => hn.1 (List.mem_map.mpr ⟨a, hmem, e.symm⟩)
      have := ih hn.2 hmem (fun x hx hxa => hfg x (by simp [hx]) hxa)
      rw [hfg b (by simp) hne]
      omega

theorem contains_append_singleton (l : List Nat) (x y : Nat) :
    (l ++ [x]).contains y = (l.contains y || y == x) := by
  rw [Bool.eq_iff_iff]
  simp [List.mem_append]

/-- **One iteration of the loop preserves the loop invariant.** -/
theorem cfStep_ok {n e : Nat} {proc : List Arch} {st : World.CF} {sa : Arch} (h : CFOk n e proc st)
    (hs : ArchShape n sa) (hmask : ∀ p ∈ proc, p.mask ≠ sa.mask) :
    CFOk n e (proc ++ [sa]) (World.cloneFromStep e st sa) := by
  -- a handle written so far belongs to a table whose mask is the mask of a processed source table
  have hwritten_mask : ∀ t, t ∈ st.pairs.map (·.2) → ∃ T, st.d.findArch t = some T ∧ T.mask ≠ sa.mask := by
    intro t ht
    obtain ⟨p, hp, rfl⟩ := List.mem_map.mp ht
    obtain ⟨j, hj⟩ := List.getElem?_of_mem hp
    have hjl : j < proc.length := by rw [← h.plen]; exact (List.getElem?_eq_some_iff.mp hj).1
    obtain ⟨t', T, h1, h2, h3, _⟩ := h.pairs j proc[j] (List.getElem?_eq_getElem hjl)
    rw [hj] at h1; cases h1
    exact ⟨T, h2, by rw [h3]; exact hmask _ (List.getElem_mem hjl)⟩
  unfold World.cloneFromStep
  cases hhit : World.cfHit st.d sa.mask with
  | some da =>
    obtain ⟨ham, hdm, hfa⟩ := cfHit_some h.foreign hhit
    simp only
    -- notation for the overwritten table
    generalize hda' : ({ da with ids := sa.ids, cols := sa.cols.map (fun c => c.map (cloneVal e)) } : Arch) = da'
    have hh' : da'.handle = da.handle := by rw [← hda']
    have hm' : da'.mask = da.mask := by rw [← hda']
    have hfind_same : (st.d.setArch da').findArch da.handle = some da' := by
      have := findArch_setArch_same st.d da' (by rw [hh']; exact hfa)
      rw [hh'] at this; exact this
    have hfind_ne : ∀ hd, hd ≠ da.handle → (st.d.setArch da').findArch hd = st.d.findArch hd := by
      intro hd hne
      exact findArch_setArch_ne st.d da' (by rw [hh']; exact hne)
    have hlook : ∀ p : Mask × Nat, lookupOk st.d p = true → lookupOk (st.d.setArch da') p = true := by
      intro p hp
      unfold lookupOk at hp ⊢
      by_cases hp2 : p.2 = da.handle
      · rw [hp2, hfind_same]; rw [hp2, hfa] at hp
        simp only [] at hp ⊢
        rw [hm']; exact hp
      · rw [hfind_ne _ hp2]; exact hp
    have hda_notwritten : da.handle ∉ st.pairs.map (·.2) := by
      intro hw
      obtain ⟨T, hT, hTm⟩ := hwritten_mask _ hw
      rw [hfa] at hT; cases hT
      exact hTm hdm
    refine ⟨?_, ?_, ?_, fun p hp => hlook p (h.foreign p hp), fun p hp => hlook p (h.typeIds p hp),
      by simp [h.plen], ?_, ?_⟩
    · show ((replaceH st.d.archs da').map (·.handle)).Nodup
      rw [replaceH_handles]; exact h.handles_nodup
    · show ((replaceH st.d.archs da').map (·.mask)).Nodup
      rw [replaceH_masks h.handles_nodup ham hh' hm']; exact h.masks_nodup
    · intro x hx
      rcases mem_replaceH (hx : x ∈ replaceH st.d.archs da') with hxe | ⟨hxm, _⟩
      · obtain ⟨_, s2, s3⟩ := h.shape da ham
        rw [hxe]
        refine ⟨archShape_clone hs _ (by rw [hm', hdm]) (by rw [← hda']) (by rw [← hda']), ?_, ?_⟩
        · show da'.handle < st.d.next
          rw [hh']; exact s2
        · show (da'.mask, da'.handle) ∈ st.d.foreign
          rw [hh', hm']; exact s3
      · exact h.shape x hxm
    · intro j sa' hj
      by_cases hjl : j < proc.length
      · rw [List.getElem?_append_left hjl] at hj
        obtain ⟨t, T, h1, h2, h3, h4, h5⟩ := h.pairs j sa' hj
        refine ⟨t, T, ?_, ?_, h3, h4, h5⟩
        · show (st.pairs ++ [(sa.handle, da.handle)])[j]? = _
          rw [List.getElem?_append_left (by rw [h.plen]; exact hjl)]; exact h1
        · show (st.d.setArch da').findArch t = some T
          have hne : t ≠ da.handle := by
            intro e'
            rw [e', hfa] at h2; cases h2
            exact hmask sa' (List.mem_of_getElem? hj) (by rw [← h3, hdm])
          rw [hfind_ne t hne]; exact h2
      · have hje : j = proc.length := by
          have := (List.getElem?_eq_some_iff.mp hj).1
          simp at this; omega
        subst hje
        have hsa : sa' = sa := by simpa using hj.symm
        subst hsa
        refine ⟨da.handle, da', ?_, hfind_same, by rw [hm', hdm], by rw [← hda'], by rw [← hda']⟩
        show (st.pairs ++ [(sa'.handle, da.handle)])[proc.length]? = _
        rw [← h.plen]; simp
    · show ((replaceH st.d.archs da').map (fun a =>
          if ((st.pairs ++ [(sa.handle, da.handle)]).map (·.2)).contains a.handle then a.ids.length else 0)).sum = _
      have hR : ((proc ++ [sa]).map (·.ids.length)).sum = (proc.map (·.ids.length)).sum + sa.ids.length := by
        simp
      rw [hR]
      -- the two summand functions
      generalize hf : (fun a : Arch => if (st.pairs.map (·.2)).contains a.handle then a.ids.length else 0) = f
      generalize hg : (fun a : Arch =>
          if ((st.pairs ++ [(sa.handle, da.handle)]).map (·.2)).contains a.handle then a.ids.length else 0) = g
      have hws := h.written_sum
      rw [hf] at hws
      have hg_other : ∀ b ∈ st.d.archs, b.handle ≠ da.handle → g b = f b := by
        intro b _ hb
        rw [← hg, ← hf]
        have : (b.handle == da.handle) = false := by simpa using hb
        have hc : ((st.pairs ++ [(sa.handle, da.handle)]).map (·.2)).contains b.handle =
            (st.pairs.map (·.2)).contains b.handle := by
          rw [List.map_append, List.map_cons, List.map_nil, contains_append_singleton, this, Bool.or_false]
        show (if ((st.pairs ++ [(sa.handle, da.handle)]).map (·.2)).contains b.handle then b.ids.length else 0) =
          (if (st.pairs.map (·.2)).contains b.handle then b.ids.length else 0)
        rw [hc]
      have hf_da : f da = 0 := by
        rw [← hf]
        have : (st.pairs.map (·.2)).contains da.handle = false := by
          cases hc : (st.pairs.map (·.2)).contains da.handle with
          | false => rfl
          | true => exact absurd (by simpa using hc) hda_notwritten
        show (if (st.pairs.map (·.2)).contains da.handle then da.ids.length else 0) = 0
        rw [this]; rfl
      have hg_da : g da = da.ids.length := by
        rw [← hg]
        simp [contains_append_singleton]
      have hg_da' : g da' = sa.ids.length := by
        rw [← hg, ← hda']
        simp [contains_append_singleton]
      have c1 := sum_map_change_one f g h.handles_nodup ham hg_other
      have c2 := replaceH_sum g h.handles_nodup ham hh'
      omega
  | none =>
    have hnone := cfHit_none h.foreign hhit
    simp only
    have hno_mask : ∀ a ∈ st.d.archs, a.mask ≠ sa.mask := fun a ha => hnone _ (h.shape a ha).2.2
    have hlt : ∀ a ∈ st.d.archs, a.handle < st.d.next := fun a ha => (h.shape a ha).2.1
    generalize hd' : ({ st.d with archs := st.d.archs ++ [World.Arch.cloneWith e st.d.next sa],
                                  foreign := st.d.foreign ++ [(sa.mask, st.d.next)],
                                  next := st.d.next + 1 } : World) = d'
    have hA : d'.archs = st.d.archs ++ [World.Arch.cloneWith e st.d.next sa] := by rw [← hd']
    have hF : d'.foreign = st.d.foreign ++ [(sa.mask, st.d.next)] := by rw [← hd']
    have hN : d'.next = st.d.next + 1 := by rw [← hd']
    have hT : d'.typeIds = st.d.typeIds := by rw [← hd']
    have hfind_old : ∀ hd a, st.d.findArch hd = some a → d'.findArch hd = some a := by
      intro hd a hf
      unfold World.findArch
      rw [hA]
      exact find_append_of_some hf
    have hfind_new : d'.findArch st.d.next = some (World.Arch.cloneWith e st.d.next sa) := by
      unfold World.findArch
      rw [hA, List.find?_append, find_none_of_handles_lt hlt]
      simp [World.Arch.cloneWith]
    have hlook : ∀ p : Mask × Nat, lookupOk st.d p = true → lookupOk d' p = true := by
      intro p hp
      obtain ⟨a, hfa, hm⟩ := lookup_mask hp
      unfold lookupOk
      rw [hfind_old _ _ hfa]; simpa using hm
    refine ⟨?_, ?_, ?_, ?_, ?_, by simp [h.plen], ?_, ?_⟩
    · show (d'.archs.map (·.handle)).Nodup
      rw [hA, List.map_append, List.nodup_append]
      refine ⟨h.handles_nodup, by simp, ?_⟩
      intro x hx y hy
      simp [World.Arch.cloneWith] at hy
      subst hy
      obtain ⟨a, ha, rfl⟩ := List.mem_map.mp hx
      have := hlt a ha; omega
    · show (d'.archs.map (·.mask)).Nodup
      rw [hA, List.map_append, List.nodup_append]
      refine ⟨h.masks_nodup, by simp, ?_⟩
      intro x hx y hy
      simp [World.Arch.cloneWith] at hy
      subst hy
      obtain ⟨a, ha, rfl⟩ := List.mem_map.mp hx
      exact hno_mask a ha
    · intro x hx
      have hx' : x ∈ st.d.archs ++ [World.Arch.cloneWith e st.d.next sa] := by rw [← hA]; exact hx
      show ArchShape n x ∧ x.handle < d'.next ∧ (x.mask, x.handle) ∈ d'.foreign
      rw [hN, hF]
      rcases List.mem_append.mp hx' with hx' | hx'
      · obtain ⟨s1, s2, s3⟩ := h.shape x hx'
        exact ⟨s1, by omega, List.mem_append_left _ s3⟩
      · simp at hx'; subst hx'
        refine ⟨archShape_clone hs _ rfl rfl rfl, by show st.d.next < st.d.next + 1; omega, ?_⟩
        show (sa.mask, st.d.next) ∈ st.d.foreign ++ [(sa.mask, st.d.next)]
        simp
    · intro p hp
      have hp' : p ∈ st.d.foreign ++ [(sa.mask, st.d.next)] := by rw [← hF]; exact hp
      rcases List.mem_append.mp hp' with hp' | hp'
      · exact hlook p (h.foreign p hp')
      · simp at hp'; subst hp'
        unfold lookupOk
        simp only
        rw [hfind_new]; simp [World.Arch.cloneWith]
    · intro p hp
      have hp' : p ∈ st.d.typeIds := by rw [← hT]; exact hp
      exact hlook p (h.typeIds p hp')
    · intro j sa' hj
      by_cases hjl : j < proc.length
      · rw [List.getElem?_append_left hjl] at hj
        obtain ⟨t, T, h1, h2, h3, h4, h5⟩ := h.pairs j sa' hj
        refine ⟨t, T, ?_, hfind_old _ _ h2, h3, h4, h5⟩
        show (st.pairs ++ [(sa.handle, st.d.next)])[j]? = _
        rw [List.getElem?_append_left (by rw [h.plen]; exact hjl)]; exact h1
      · have hje : j = proc.length := by
          have := (List.getElem?_eq_some_iff.mp hj).1
          simp at this; omega
        subst hje
        have hsa : sa' = sa := by simpa using hj.symm
        subst hsa
        refine ⟨st.d.next, World.Arch.cloneWith e st.d.next sa', ?_, hfind_new, rfl, rfl, rfl⟩
        show (st.pairs ++ [(sa'.handle, st.d.next)])[proc.length]? = _
        rw [← h.plen]; simp
    · show (d'.archs.map (fun a =>
          if ((st.pairs ++ [(sa.handle, st.d.next)]).map (·.2)).contains a.handle then a.ids.length else 0)).sum = _
      have hR : ((proc ++ [sa]).map (·.ids.length)).sum = (proc.map (·.ids.length)).sum + sa.ids.length := by
        simp
      rw [hR, hA, List.map_append, List.sum_append]
      have hold : st.d.archs.map (fun a =>
          if ((st.pairs ++ [(sa.handle, st.d.next)]).map (·.2)).contains a.handle then a.ids.length else 0) =
          st.d.archs.map (fun a => if (st.pairs.map (·.2)).contains a.handle then a.ids.length else 0) := by
        apply List.map_congr_left
        intro a ha
        have hne : a.handle ≠ st.d.next := by have := hlt a ha; omega
        have : (a.handle == st.d.next) = false := by simpa using hne
        simp only [List.map_append, List.map_cons, List.map_nil, contains_append_singleton, this,
          Bool.or_false]
      rw [hold, h.written_sum]
      simp [contains_append_singleton, World.Arch.cloneWith]

/-! ### the whole loop -/

theorem cloneFromStep_frame (e : Nat) (st : World.CF) (sa : Arch) :
    (World.cloneFromStep e st sa).d.typeIds = st.d.typeIds ∧ (World.cloneFromStep e st sa).d.n = st.d.n := by
  unfold World.cloneFromStep
  cases World.cfHit st.d sa.mask <;> exact ⟨rfl, rfl⟩

theorem cloneFromArchs_frame (e : Nat) (l : List Arch) :
    ∀ st : World.CF, (World.cloneFromArchs e st l).d.typeIds = st.d.typeIds ∧
      (World.cloneFromArchs e st l).d.n = st.d.n := by
  unfold World.cloneFromArchs
  induction l with
  | nil => intro st; exact ⟨rfl, rfl⟩
  | cons sa rest ih =>
    intro st
    simp only [List.foldl_cons]
    obtain ⟨i1, i2⟩ := ih (World.cloneFromStep e st sa)
    obtain ⟨f1, f2⟩ := cloneFromStep_frame e st sa
    exact ⟨by rw [i1, f1], by rw [i2, f2]⟩

theorem cfLoop_ok {n e : Nat} (l : List Arch) :
    ∀ {proc : List Arch} {st : World.CF}, CFOk n e proc st → (∀ sa ∈ l, ArchShape n sa) →
      ((proc ++ l).map (·.mask)).Nodup → CFOk n e (proc ++ l) (World.cloneFromArchs e st l) := by
  unfold World.cloneFromArchs
  induction l with
  | nil => intro proc st h _ _; simpa using h
  | cons sa rest ih =>
    intro proc st h hs hn
    simp only [List.foldl_cons]
    have hmask : ∀ p ∈ proc, p.mask ≠ sa.mask := by
      intro p hp e'
      rw [List.map_append, List.nodup_append] at hn
      exact hn.2.2 p.mask (List.mem_map.mpr ⟨p, hp, rfl⟩) sa.mask (by simp) e'
    have h1 := cfStep_ok h (hs sa (by simp)) hmask
    have := ih h1 (fun x hx => hs x (by simp [hx])) (by simpa using hn)
    simpa using this

/-! ### lookups -/

theorem lookup_of_getElem {l : List (Nat × Nat)} (hn : (l.map (·.1)).Nodup) {j k v : Nat}
    (h : l[j]? = some (k, v)) : l.lookup k = some v := by
  induction l generalizing j with
  | nil => simp at h
  | cons p ps ih =>
    simp only [List.map_cons, List.nodup_cons] at hn
    cases j with
    | zero => simp at h; subst h; simp [List.lookup_cons]
    | succ j =>
      simp at h
      have hne : k ≠ p.1 := by
        intro e'
        exact hn.1 (List.mem_map.mpr ⟨(k, v), List.mem_of_getElem? h, e'⟩)
      obtain ⟨pk, pv⟩ := p
      have : (k == pk) = false := by simpa using hne
      simp only [List.lookup_cons, this]
      exact ih hn.2 h

theorem find_map_preserving (g : Arch → Arch) (hg : ∀ a, (g a).handle = a.handle) (l : List Arch) (hd : Nat) :
    (l.map g).find? (fun a => a.handle == hd) = (l.find? (fun a => a.handle == hd)).map g := by
  induction l with
  | nil => rfl
  | cons a as ih =>
    simp only [List.map_cons, List.find?_cons, hg]
    cases a.handle == hd <;> simp [ih]

theorem upsert_spec (l : List (Mask × Nat)) (m : Mask) (h : Nat) :
    (∀ p ∈ World.upsert l m h, p = (m, h) ∨ p ∈ l) ∧
    ((l.map (·.1)).Nodup → ((World.upsert l m h).map (·.1)).Nodup) := by
  unfold World.upsert
  by_cases hany : l.any (fun p => p.1 == m) = true
  · simp only [hany, if_true]
    constructor
    · intro p hp
      obtain ⟨q, hq, rfl⟩ := List.mem_map.mp hp
      by_cases hqm : q.1 == m
      · left; simp [hqm]
      · right; simp [hqm]; exact hq
    · intro hn
      have : (l.map (fun p => if p.1 == m then (m, h) else p)).map (·.1) = l.map (·.1) := by
        rw [List.map_map]
        apply List.map_congr_left
        intro q _
        simp only [Function.comp]
        by_cases hqm : q.1 == m
        · simp [hqm]; exact (by simpa using hqm : q.1 = m).symm
        · simp [hqm]
      rw [this]; exact hn
  · have hany' : l.any (fun p => p.1 == m) = false := by
      cases hb : l.any (fun p => p.1 == m) with
      | false => rfl
      | true => exact absurd hb hany
    simp only [hany', Bool.false_eq_true, if_false]
    constructor
    · intro p hp
      rcases List.mem_append.mp hp with hp | hp
      · right; exact hp
      · left; simpa using hp
    · intro hn
      rw [List.map_append, List.nodup_append]
      refine ⟨hn, by simp, ?_⟩
      intro x hx y hy e'
      simp at hy; subst hy
      obtain ⟨q, hq, rfl⟩ := List.mem_map.mp hx
      rw [List.any_eq_false] at hany'
      exact hany' q hq (by simpa using e')

theorem upsert_fold_spec (tys : List (Mask × Nat)) :
    ∀ init : List (Mask × Nat),
      (∀ p ∈ tys.foldl (fun acc p => World.upsert acc p.1 p.2) init, p ∈ tys ∨ p ∈ init) ∧
      ((init.map (·.1)).Nodup → ((tys.foldl (fun acc p => World.upsert acc p.1 p.2) init).map (·.1)).Nodup) := by
  induction tys with
  | nil => intro init; exact ⟨fun p hp => Or.inr hp, fun h => h⟩
  | cons t ts ih =>
    intro init
    simp only [List.foldl_cons]
    obtain ⟨i1, i2⟩ := ih (World.upsert init t.1 t.2)
    obtain ⟨u1, u2⟩ := upsert_spec init t.1 t.2
    constructor
    · intro p hp
      rcases i1 p hp with h | h
      · left; simp [h]
      · rcases u1 p h with h | h
        · left; rw [h]; simp
        · right; exact h
    · intro hn; exact i2 (u2 hn)

/-! ### the finished destination -/

/-- Keep a table that received a source table, clear the others (`clear_detached`). -/
def cfKeep (written : List Nat) (a : Arch) : Arch := if written.contains a.handle then a else a.cleared

theorem cfKeep_handle (written : List Nat) (a : Arch) : (cfKeep written a).handle = a.handle := by
  unfold cfKeep; split <;> rfl

theorem cfKeep_mask (written : List Nat) (a : Arch) : (cfKeep written a).mask = a.mask := by
  unfold cfKeep; split <;> rfl

def cfFinal (st : World.CF) (tys : List (Mask × Nat)) (al : Alloc) (s : World) (e : Nat) : World :=
  { st.d with archs := st.d.archs.map (cfKeep (st.pairs.map (·.2))),
              typeIds := tys.foldl (fun acc p => World.upsert acc p.1 p.2) st.d.typeIds,
              alloc := al, len := s.len, res := s.res.map (cloneVal e) }

theorem cloneFrom_eq (d s : World) (e : Nat) :
    World.cloneFrom d s e =
      match World.remapLookup (World.cloneFromArchs e ⟨d, [], []⟩ s.archs).pairs s.typeIds with
      | .ub x => .ub x
      | .ok tys =>
        match s.alloc.remap (World.mapH (World.cloneFromArchs e ⟨d, [], []⟩ s.archs).pairs) with
        | .ub x => .ub x
        | .ok al =>
          .ok (cfFinal (World.cloneFromArchs e ⟨d, [], []⟩ s.archs) tys al s e,
               (World.cloneFromArchs e ⟨d, [], []⟩ s.archs).drops ++
                 ((World.cloneFromArchs e ⟨d, [], []⟩ s.archs).d.archs.filter (fun a =>
                   !((World.cloneFromArchs e ⟨d, [], []⟩ s.archs).pairs.map (·.2)).contains a.handle)).flatMap
                     Arch.values ++ d.res) := rfl

theorem archShape_cleared {n : Nat} {a : Arch} (s : ArchShape n a) : ArchShape n a.cleared := by
  refine ⟨s.mask_len, by simp [Arch.cleared, s.cols_len], ?_⟩
  intro j c ty hj _
  simp only [Arch.cleared, List.getElem?_map] at hj
  cases hcj : a.cols[j]? with
  | none => simp [hcj] at hj
  | some c0 => simp [hcj] at hj; subst hj; simp [Arch.cleared]

/-- **`clone_from` never fails, and the destination afterwards satisfies the invariant and denotes
the source's map** (values copied), whatever the destination held before. -/
theorem cloneFrom_spec {d s : World} (hd : Inv d) (hs : Inv s) (hn : d.n = s.n) (e : Nat) :
    ∃ fin drops, World.cloneFrom d s e = .ok (fin, drops) ∧ Inv fin ∧ fin.n = s.n ∧ fin.len = s.len ∧
      fin.res = s.res.map (cloneVal e) ∧
      ∀ id, fin.entity id = (s.entity id).map (fun vs => vs.map (cloneVal e)) := by
  generalize hst : World.cloneFromArchs e ⟨d, [], []⟩ s.archs = st
  have H : CFOk d.n e s.archs st := by
    have := cfLoop_ok (n := d.n) (e := e) s.archs (initCF_ok hd e)
      (fun sa hsa => by rw [hn]; exact archShape_of_ok (hs.archOk hsa)) (by simpa using hs.masks_nodup)
    rw [hst] at this
    simpa using this
  obtain ⟨hfr_t, hfr_n⟩ := cloneFromArchs_frame e s.archs ⟨d, [], []⟩
  rw [hst] at hfr_t hfr_n
  simp only at hfr_t hfr_n
  -- the destination table of the j-th source table
  have hkeys : (st.pairs.map (·.1)).Nodup := by
    have : st.pairs.map (·.1) = s.archs.map (·.handle) := by
      apply List.ext_getElem?
      intro j
      rw [List.getElem?_map, List.getElem?_map]
      by_cases hj : j < s.archs.length
      · obtain ⟨t, T, h1, _⟩ := H.pairs j s.archs[j] (List.getElem?_eq_getElem hj)
        rw [h1, List.getElem?_eq_getElem hj]; rfl
      · have h1 : s.archs[j]? = none := by simp [List.getElem?_eq_none, hj]
        have h2 : st.pairs[j]? = none := by
          rw [List.getElem?_eq_none]; rw [H.plen]; omega
        rw [h1, h2]; rfl
    rw [this]; exact hs.handles_nodup
  have htarget : ∀ {hd' : Nat} {sa : Arch}, s.findArch hd' = some sa →
      ∃ t T, World.mapH st.pairs hd' = some t ∧ t ∈ st.pairs.map (·.2) ∧ st.d.findArch t = some T ∧
        T.mask = sa.mask ∧ T.ids = sa.ids ∧ T.cols = sa.cols.map (fun c => c.map (cloneVal e)) := by
    intro hd' sa hf
    obtain ⟨ham, hah⟩ := findArch_some hf
    obtain ⟨j, hj⟩ := List.getElem?_of_mem ham
    obtain ⟨t, T, h1, h2, h3, h4, h5⟩ := H.pairs j sa hj
    refine ⟨t, T, ?_, ?_, h2, h3, h4, h5⟩
    · unfold World.mapH; rw [← hah]; exact lookup_of_getElem hkeys h1
    · exact List.mem_map.mpr ⟨_, List.mem_of_getElem? h1, rfl⟩
  -- the lookups and the allocator can be remapped
  obtain ⟨tys, t1, t2, t3⟩ := remapLookup_spec st.pairs s.typeIds (by
    intro p hp
    obtain ⟨sa, hfa, _⟩ := lookup_mask (hs.typeIds p hp)
    obtain ⟨t, _, hm, _⟩ := htarget hfa
    exact ⟨t, hm⟩)
  obtain ⟨al, a1, a2, a3, a4⟩ := remap_spec (a := s.alloc) (World.mapH st.pairs) (by
    intro sl hsl l hl
    obtain ⟨i, hi'⟩ := List.getElem?_of_mem hsl
    have hlt : i < s.alloc.slots.length := (List.getElem?_eq_some_iff.mp hi').1
    obtain ⟨sa, hfa, _, _⟩ := ((slotOk_iff.mp (hs.slots i hlt)) sl hi').2 l hl
    obtain ⟨t, _, hm, _⟩ := htarget hfa
    exact ⟨t, hm⟩)
  refine ⟨cfFinal st tys al s e, st.drops ++ (st.d.archs.filter (fun a =>
    !(st.pairs.map (·.2)).contains a.handle)).flatMap Arch.values ++ d.res, ?_, ?_, ?_, rfl, rfl, ?_⟩
  · rw [cloneFrom_eq, hst, t1, a1]
  -- facts about the finished tables
  all_goals
    have hfind : ∀ hd', (cfFinal st tys al s e).findArch hd' =
        (st.d.findArch hd').map (cfKeep (st.pairs.map (·.2))) := by
      intro hd'
      unfold World.findArch cfFinal
      simp only
      exact find_map_preserving _ (cfKeep_handle _) _ _
    have hfind_w : ∀ {t : Nat} {T : Arch}, t ∈ st.pairs.map (·.2) → st.d.findArch t = some T →
        (cfFinal st tys al s e).findArch t = some T := by
      intro t T ht hf
      rw [hfind, hf]
      have hh : T.handle = t := (findArch_some hf).2
      have : (st.pairs.map (·.2)).contains T.handle = true := by rw [hh]; simpa using ht
      simp only [Option.map_some, cfKeep, this, if_true]
  · -- the invariant
    have hlook : ∀ p : Mask × Nat, lookupOk st.d p = true → lookupOk (cfFinal st tys al s e) p = true := by
      intro p hp
      obtain ⟨a, hfa, hm⟩ := lookup_mask hp
      unfold lookupOk
      rw [hfind, hfa]
      simpa [cfKeep_mask] using hm
    refine
      { free_nodup := ?_, free_inactive := ?_, slots := ?_, archs := ?_, masks_nodup := ?_,
        handles_nodup := ?_, typeIds := ?_, typeIds_nodup := ?_, foreign := ?_, len := ?_ }
    · show al.free.Nodup
      rw [a2]; exact hs.free_nodup
    · intro i hif
      show (al.slots[i]?).map (·.loc) = some none
      have hif' : i ∈ s.alloc.free := by rw [← a2]; exact hif
      have := hs.free_inactive i hif'
      cases hsl : s.alloc.slots[i]? with
      | none => simp [hsl] at this
      | some sl =>
        simp [hsl] at this
        rw [((a4 i sl hsl).1 this)]; rfl
    · intro i hlt
      apply slotOk_iff.mpr
      intro s' hs'
      have hlt' : i < s.alloc.slots.length := by rw [← a3]; exact hlt
      have hsl : s.alloc.slots[i]? = some s.alloc.slots[i] := List.getElem?_eq_getElem hlt'
      generalize s.alloc.slots[i] = sl at hsl
      obtain ⟨w1, w2⟩ := (slotOk_iff.mp (hs.slots i hlt')) sl hsl
      obtain ⟨c1, c2⟩ := a4 i sl hsl
      have hs'' : al.slots[i]? = some s' := hs'
      cases hl : sl.loc with
      | none =>
        rw [c1 hl] at hs''; cases hs''
        refine ⟨fun _ => ?_, fun l hl' => by simp at hl'⟩
        show i ∈ al.free
        rw [a2]; exact w1 hl
      | some l =>
        obtain ⟨h', hm, hsl'⟩ := c2 l hl
        rw [hsl'] at hs''; cases hs''
        refine ⟨fun h => by simp at h, ?_⟩
        intro l' hl'
        simp only [Option.some.injEq] at hl'
        subst hl'
        obtain ⟨sa, hfa, hrow, hnf⟩ := w2 l hl
        obtain ⟨t, T, hmt, htw, hfT, _, hTi, _⟩ := htarget hfa
        rw [hmt] at hm; cases hm
        refine ⟨T, hfind_w htw hfT, by rw [hTi]; exact hrow, ?_⟩
        show i ∉ al.free
        rw [a2]; exact hnf
    · intro b hb
      apply archOk_iff.mpr
      obtain ⟨a, ha, rfl⟩ := List.mem_map.mp (hb : b ∈ st.d.archs.map (cfKeep (st.pairs.map (·.2))))
      obtain ⟨sh, hlt, hfor⟩ := H.shape a ha
      by_cases hw : (st.pairs.map (·.2)).contains a.handle = true
      · have hk : cfKeep (st.pairs.map (·.2)) a = a := by simp only [cfKeep, hw, if_true]
        rw [hk]
        -- `a` is the table of some source table
        obtain ⟨p, hp, hpa⟩ := List.mem_map.mp (by simpa using hw : a.handle ∈ st.pairs.map (·.2))
        obtain ⟨j, hj⟩ := List.getElem?_of_mem hp
        have hjl : j < s.archs.length := by rw [← H.plen]; exact (List.getElem?_eq_some_iff.mp hj).1
        obtain ⟨t, T, h1, h2, h3, h4, h5⟩ := H.pairs j s.archs[j] (List.getElem?_eq_getElem hjl)
        rw [hj] at h1
        have ht : t = a.handle := by rw [← hpa]; cases h1; rfl
        have hTa : T = a := by
          have := findArch_of_mem H.handles_nodup ha
          rw [← ht, h2] at this; exact Option.some.inj this
        subst hTa
        have hsa_mem : s.archs[j] ∈ s.archs := List.getElem_mem hjl
        have hfs : s.findArch (s.archs[j]).handle = some s.archs[j] := findArch_of_mem hs.handles_nodup hsa_mem
        obtain ⟨t', T', hmt, _, hfT', _⟩ := htarget hfs
        have htt : t' = t := by
          have := lookup_of_getElem hkeys (by rw [hj]; cases h1; rfl : st.pairs[j]? = some ((s.archs[j]).handle, t))
          unfold World.mapH at hmt
          rw [this] at hmt; exact (Option.some.inj hmt).symm
        refine
          { mask_len := (by show T.mask.length = st.d.n; rw [hfr_n]; exact sh.mask_len), handle_lt := hlt, cols_len := sh.cols_len,
            cols_all_len := sh.cols_all_len, cols_ok := sh.cols_ok, rows := ?_, foreign := hfor }
        intro r id hr
        show al.slots[id.index]? = some ⟨id.gen, some ⟨T.handle, r⟩⟩
        rw [h4] at hr
        have hslot := (hs.archOk hsa_mem).rows r id hr
        obtain ⟨h', hm, hsl'⟩ := (a4 id.index _ hslot).2 ⟨(s.archs[j]).handle, r⟩ rfl
        rw [hmt] at hm
        have : h' = T.handle := by rw [← ht, ← htt]; exact (Option.some.inj hm).symm
        rw [this] at hsl'; exact hsl'
      · have hw' : (st.pairs.map (·.2)).contains a.handle = false := by
          cases hb' : (st.pairs.map (·.2)).contains a.handle with
          | false => rfl
          | true => exact absurd hb' hw
        have hk : cfKeep (st.pairs.map (·.2)) a = a.cleared := by
          simp only [cfKeep, hw', Bool.false_eq_true, if_false]
        rw [hk]
        have shc := archShape_cleared sh
        refine
          { mask_len := (by show a.cleared.mask.length = st.d.n; rw [hfr_n]; exact shc.mask_len), handle_lt := hlt, cols_len := shc.cols_len,
            cols_all_len := shc.cols_all_len, cols_ok := shc.cols_ok, rows := ?_, foreign := hfor }
        intro r id hr
        simp [Arch.cleared] at hr
    · show ((st.d.archs.map (cfKeep (st.pairs.map (·.2)))).map (·.mask)).Nodup
      rw [List.map_map]
      have : ((fun a : Arch => a.mask) ∘ cfKeep (st.pairs.map (·.2))) = fun a => a.mask := by
        funext a; exact cfKeep_mask _ a
      rw [this]; exact H.masks_nodup
    · show ((st.d.archs.map (cfKeep (st.pairs.map (·.2)))).map (·.handle)).Nodup
      rw [List.map_map]
      have : ((fun a : Arch => a.handle) ∘ cfKeep (st.pairs.map (·.2))) = fun a => a.handle := by
        funext a; exact cfKeep_handle _ a
      rw [this]; exact H.handles_nodup
    · intro p hp
      rcases (upsert_fold_spec tys st.d.typeIds).1 p hp with hpt | hpo
      · obtain ⟨h0, hmem, hm⟩ := t3 p hpt
        obtain ⟨sa, hfa, hmask⟩ := lookup_mask (hs.typeIds _ hmem)
        simp only at hfa hmask
        obtain ⟨t, T, hmt, htw, hfT, hTm, _⟩ := htarget hfa
        rw [hmt] at hm
        have hp2 : p.2 = t := (Option.some.inj hm).symm
        unfold lookupOk
        rw [hp2, hfind_w htw hfT]
        simp [hTm, hmask]
      · exact hlook p (H.typeIds p hpo)
    · exact (upsert_fold_spec tys st.d.typeIds).2 (by rw [hfr_t]; exact hd.typeIds_nodup)
    · intro p hp
      exact hlook p (H.foreign p hp)
    · show s.len = ((st.d.archs.map (cfKeep (st.pairs.map (·.2)))).map (·.ids.length)).sum
      rw [List.map_map, hs.len, ← H.written_sum]
      congr 1
      apply List.map_congr_left
      intro a _
      simp only [Function.comp, cfKeep]
      split <;> simp [Arch.cleared]
  · exact hfr_n.trans hn
  · -- the map view
    intro id
    unfold World.entity
    show (match al.get id with | none => none | some l => _) = _
    cases hsl : s.alloc.slots[id.index]? with
    | none =>
      have hs' : al.slots[id.index]? = none := by
        rw [List.getElem?_eq_none_iff] at hsl ⊢; rw [a3]; exact hsl
      rw [get_none_of_slot_none hs', get_none_of_slot_none hsl]; rfl
    | some sl =>
      obtain ⟨c1, c2⟩ := a4 id.index sl hsl
      cases hl : sl.loc with
      | none =>
        have g1 : al.get id = none := by unfold Alloc.get; rw [c1 hl]; simp
        have g2 : s.alloc.get id = none := by unfold Alloc.get; rw [hsl]; simp [hl]
        rw [g1, g2]; rfl
      | some l =>
        obtain ⟨h', hm, hsl'⟩ := c2 l hl
        by_cases hg : sl.gen = id.gen
        · have g1 : al.get id = some ⟨h', l.row⟩ := by unfold Alloc.get; rw [hsl']; simp [hg]
          have g2 : s.alloc.get id = some l := by unfold Alloc.get; rw [hsl]; simp [hg, hl]
          obtain ⟨sa, la, hh⟩ := hs.liveAt g2
          have hfl : s.findArch l.arch = some sa := by rw [← hh]; exact la.find
          obtain ⟨t, T, hmt, htw, hfT, _, _, hTc⟩ := htarget hfl
          rw [hmt] at hm
          have hh' : h' = t := (Option.some.inj hm).symm
          rw [g1, g2]
          simp only
          rw [hfl, hh']
          show (match (cfFinal st tys al s e).findArch t with
            | none => none | some x => some (x.row l.row)) = _
          rw [hfind_w htw hfT]
          simp only [Option.map_some, Arch.row, hTc]
          rw [filterMap_map_map]
        · have g1 : al.get id = none := by unfold Alloc.get; rw [hsl']; simp [hg]
          have g2 : s.alloc.get id = none := by unfold Alloc.get; rw [hsl]; simp [hg]
          rw [g1, g2]; rfl

end Brood
