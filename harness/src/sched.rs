//! Schedules (C07, C08, C12): sequential reference vs `run_schedule` under scripted fork/join
//! orders and real rayon pools; static staging read from `type_name`; phases read from the
//! fork/join log of the `brood_verif` shim.
use crate::comps::*;
use crate::core::*;
use crate::family::Family;
use crate::gen_reg4::Reg4;
use brood::entity;
use brood::system::schedule::verif::{self, Event};
use std::sync::atomic::Ordering;

pub use crate::sched_types::*;

/// Parse the nested-tuple type name of `Stages` into group sizes of task indices.
pub fn parse_stages(name: &str) -> Vec<Vec<usize>> {
    // Stages = (Stage, Stages') … stages::Null ; Stage = (&mut T<s>_<j>, Stage') … stage::Null
    // A stage boundary is where a `stage::Null` closes; task names appear as `T<digits>_<digits>`.
    let mut groups: Vec<Vec<usize>> = Vec::new();
    let mut cur: Vec<usize> = Vec::new();
    let b = name.as_bytes();
    let mut i = 0;
    while i < b.len() {
        if name[i..].starts_with("stage::Null") {
            groups.push(std::mem::take(&mut cur));
            i += "stage::Null".len();
            continue;
        }
        if b[i] == b'T' && i + 1 < b.len() && b[i + 1].is_ascii_digit() && (i == 0 || !(b[i - 1].is_ascii_alphanumeric() || b[i - 1] == b'_')) {
            let mut j = i + 1;
            while j < b.len() && b[j].is_ascii_digit() { j += 1; }
            if j < b.len() && b[j] == b'_' {
                let mut k = j + 1;
                while k < b.len() && b[k].is_ascii_digit() { k += 1; }
                if let Ok(t) = name[j + 1..k].parse::<usize>() {
                    cur.push(t);
                    i = k;
                    continue;
                }
            }
        }
        i += 1;
    }
    groups.into_iter().filter(|g| !g.is_empty()).collect()
}

/// Phases of a scripted (sequential) run: maximal fork/join nests, with the tasks started in them.
pub fn phases_of(log: &[Event]) -> Vec<Vec<u64>> {
    let mut depth = 0i64;
    let mut cur: Vec<u64> = Vec::new();
    let mut out = Vec::new();
    for e in log {
        match e {
            Event::Fork(..) => depth += 1,
            Event::Join(_) => {
                depth -= 1;
                if depth == 0 {
                    let mut p = std::mem::take(&mut cur);
                    p.sort();
                    out.push(p);
                }
            }
            Event::Mid(_) => {}
            Event::User(t) => {
                if *t < 1000 {
                    cur.push(*t);
                }
            }
        }
    }
    if !cur.is_empty() {
        cur.sort();
        out.push(cur);
    }
    out.into_iter().filter(|p| !p.is_empty()).collect()
}

/// For every task started in a scripted run: the stack of (join id, branch) it started under.
pub fn task_paths(log: &[Event]) -> Vec<(u64, Vec<(usize, u8)>)> {
    let mut stack: Vec<(usize, u8)> = Vec::new();
    let mut out = Vec::new();
    for e in log {
        match e {
            Event::Fork(id, second_first) => stack.push((*id, if *second_first { 1 } else { 0 })),
            Event::Mid(id) => {
                if let Some(top) = stack.last_mut() {
                    if top.0 == *id {
                        top.1 = 1 - top.1;
                    }
                }
            }
            Event::Join(_) => {
                stack.pop();
            }
            Event::User(t) => {
                if *t < 1000 {
                    out.push((*t, stack.clone()));
                }
            }
        }
    }
    out
}

/// Are two tasks unordered by the fork/join structure (they sit in different branches of one join)?
pub fn unordered(a: &[(usize, u8)], b: &[(usize, u8)]) -> bool {
    for (x, y) in a.iter().zip(b.iter()) {
        if x != y {
            return x.0 == y.0 && x.1 != y.1;
        }
    }
    false
}

fn fmt_groups<T: std::fmt::Display>(g: &[Vec<T>]) -> String {
    if g.is_empty() {
        return "-".into();
    }
    g.iter().map(|p| p.iter().map(|t| t.to_string()).collect::<Vec<_>>().join(".")).collect::<Vec<_>>().join("/")
}

/// `sched <descriptor> <epoch> <scripts>`: runs on scratch clones, never on the tracked world.
pub fn exec_sched(it: &mut Interp<Reg4>, w: usize, args: &[String]) -> Option<String> {
    // scratch worlds and rayon pools live and die inside this op: outside the allocator audit
    no_lib(|| exec_sched_inner(it, w, args))
}

fn exec_sched_inner(it: &mut Interp<Reg4>, w: usize, args: &[String]) -> Option<String> {
    if args.len() != 3 {
        return None;
    }
    let f = crate::gen_sched::schedules().into_iter().find(|s| s.0 == args[0])?.1;
    let e: u64 = args[1].parse().ok()?;
    let nscripts: u64 = args[2].parse().ok()?;
    let world = it.worlds[w].as_mut()?;
    let targets: Vec<entity::Identifier> = no_lib(|| Reg4::rows(world).iter().map(|(id, _)| mk_ident(*id)).collect());
    EPOCH.store(e, Ordering::SeqCst);
    // sequential reference
    let mut a = world.clone();
    verif::install(Some(vec![]));
    let seq = f(&mut a, SchedMode::Sequential, &targets);
    verif::take_log();
    let ref_dump = render_dump::<Reg4>(&mut a);
    drop(a);
    let mut problems: Vec<String> = Vec::new();
    let mut stages_s = String::new();
    let mut phases_s = String::new();
    let mut rng = crate::rng::Rng::new(e * 7919 + 13);
    // scripted runs: all-first, all-second, random; then real pools
    let total = 2 + nscripts;
    for k in 0..(total + 3) {
        let mut b = world.clone();
        let label;
        if k < total {
            let script: Vec<bool> = match k {
                0 => vec![false; 64],
                1 => vec![true; 64],
                _ => (0..64).map(|_| rng.below(2) == 0).collect(),
            };
            label = format!("script{}", k);
            verif::install(Some(script));
        } else {
            label = format!("pool{}", [1usize, 2, 8][(k - total) as usize]);
            verif::install(None);
        }
        let out = if k < total {
            f(&mut b, SchedMode::Schedule, &targets)
        } else {
            let threads = [1usize, 2, 8][(k - total) as usize];
            let pool = rayon::ThreadPoolBuilder::new().num_threads(threads).build().unwrap();
            pool.install(|| f(&mut b, SchedMode::Schedule, &targets))
        };
        let log = verif::take_log();
        verif::install(None);
        let dump = render_dump::<Reg4>(&mut b);
        drop(b);
        if k < total {
            // C12: the tasks of one phase must be pairwise unordered in the fork/join structure
            let paths = task_paths(&log);
            for p in phases_of(&log) {
                for (i, a) in p.iter().enumerate() {
                    for b in p.iter().skip(i + 1) {
                        let pa = paths.iter().find(|x| x.0 == *a).map(|x| x.1.clone()).unwrap_or_default();
                        let pb = paths.iter().find(|x| x.0 == *b).map(|x| x.1.clone()).unwrap_or_default();
                        if !unordered(&pa, &pb) {
                            problems.push(format!("{}:serialised tasks {} and {} of one phase are ordered by the fork/join structure", label, a, b));
                        }
                    }
                }
            }
        }
        if k < total {
            // C12: a phase is "what is left of stage k" plus tasks of stage k+1 started early.  A phase
            // whose earliest stage is k therefore holds every task of stage k that has not run yet: a
            // stage mate that runs in a LATER phase was held back although nothing it conflicts with
            // was running (the schedule was serialised).
            let stages = parse_stages(&out.stages);
            let stage_of = |t: u64| stages.iter().position(|g| g.iter().any(|x| *x as u64 == t));
            let phases = phases_of(&log);
            for (pi, p) in phases.iter().enumerate() {
                if let Some(ks) = p.iter().filter_map(|t| stage_of(*t)).min() {
                    for later in phases.iter().skip(pi + 1) {
                        for u in later.iter() {
                            if stage_of(*u) == Some(ks) {
                                let a = p.iter().find(|t| stage_of(**t) == Some(ks)).unwrap();
                                problems.push(format!("{}:serialised tasks {} and {} of stage {} run in separate phases ({}) although none of an earlier stage runs with the first", label, a, u, ks, fmt_groups(&phases)));
                            }
                        }
                    }
                }
            }
        }
        if k == 0 {
            stages_s = fmt_groups(&parse_stages(&out.stages));
            phases_s = fmt_groups(&phases_of(&log));
        } else if k < total {
            let p = fmt_groups(&phases_of(&log));
            if p != phases_s {
                problems.push(format!("{}:phases-differ {} vs {}", label, p, phases_s));
            }
        }
        if out.states.iter().any(|s| s.1 != 1) {
            problems.push(format!("{}:run-counts {:?}", label, out.states.iter().map(|s| s.1).collect::<Vec<_>>()));
        }
        if dump != ref_dump {
            problems.push(format!("{}:world-differs-from-sequential", label));
        } else if out.states.iter().map(|s| s.0).collect::<Vec<_>>() != seq.states.iter().map(|s| s.0).collect::<Vec<_>>() {
            problems.push(format!("{}:system-state-differs-from-sequential", label));
        }
    }
    take_drops();
    for p in problems.iter() {
        ledger_error(format!("oracle=sched schedule={} {}", args[0], p));
    }
    Some(format!("ok stages={} phases={}", stages_s, phases_s))
}
