/-
  C17 — A panic in user code never leads to double drops or invalid memory.

  The full statement is FALSE on the current tree (recorded findings): a `Drop` panic inside
  `World::clear` / `World::remove` (non-last row) and a `Clone` / `Drop` panic inside
  `World::clone_from` leave columns and the shared length inconsistent, so values are dropped a
  second time when the world is dropped.  Proved here: the mechanism of the `clear` finding on the
  model (a concrete witness of the double drop for *every* non-empty column layout), and that the
  length-first order is panic safe (leaks at worst).  The fault-enumeration run checks every
  (operation, callback, position) of the table below on the real crate; pairs the table calls safe
  must show no double drop, no allocator error, no crash.  PARTIAL: unwinding itself, `Vec`'s
  internal guards and rayon's panic propagation are modelled from their documentation.
-/
import BroodModel.Fault

namespace Brood

/-- **The `clear` finding, for every layout**: if clearing is interrupted by a `Drop` panic in
column `j`, every value of columns `0..=j` (that the shared length still covers) is dropped again
when the archetype is dropped. -/
theorem C17_clear_drop_panic_double_drop (cols : List (List Val)) (j : Nat)
    (hlen : ∀ c ∈ cols, c.length = (cols.headD []).length) :
    let (d1, st) := clearFault cols j
    ∀ v ∈ d1, v ∈ st.dropAll := by
  simp only [clearFault, RawArch.dropAll]
  intro v hv
  simp only [List.mem_flatten] at hv
  obtain ⟨c, hc, hvc⟩ := hv
  have hcm : c ∈ cols := List.mem_of_mem_take hc
  simp only [List.mem_flatMap]
  refine ⟨c, hcm, ?_⟩
  rw [← hlen c hcm, List.take_length]
  exact hvc

/-- A concrete instance: two columns of two values, panic in the first column: both of its
values are dropped by the operation and again by the world's drop. -/
def witnessCols : List (List Val) := [[⟨0, 1⟩, ⟨0, 2⟩], [⟨2, 3⟩, ⟨2, 4⟩]]

example : (clearFault witnessCols 0).1 = [⟨0, 1⟩, ⟨0, 2⟩] ∧
    (clearFault witnessCols 0).2.dropAll = [⟨0, 1⟩, ⟨0, 2⟩, ⟨2, 3⟩, ⟨2, 4⟩] ∧
    ((clearFault witnessCols 0).1 ++ (clearFault witnessCols 0).2.dropAll).Nodup = False := by
  refine ⟨by decide, by decide, ?_⟩
  simp [clearFault, witnessCols, RawArch.dropAll]

/-- **Length-first is panic safe**: with the shared length zeroed before the loop, nothing the
interrupted operation dropped is dropped again (the untouched columns leak). -/
theorem C17_clear_length_first_safe (cols : List (List Val)) (j : Nat) :
    let (_, st) := clearFaultLengthFirst cols j
    st.dropAll = [] := by
  simp [clearFaultLengthFirst, RawArch.dropAll]

/-- Callbacks that only read (`PartialEq`, `Debug`, `Serialize`, a system body) are safe for
every operation; `Clone` is safe inside `clone`. -/
theorem C17_read_only_safe (op : String) :
    faultSafe op "PartialEq" = true ∧ faultSafe op "Debug" = true ∧
    faultSafe op "Serialize" = true ∧ faultSafe op "Body" = true ∧ faultSafe "clone" "Clone" = true := by
  simp [faultSafe]

end Brood

#print axioms Brood.C17_clear_drop_panic_double_drop
#print axioms Brood.C17_clear_length_first_safe
#print axioms Brood.C17_read_only_safe
