//! C17: fault enumeration.  For small worlds with multi-column archetypes, every operation that
//! calls user code × every callback × every position k: the k-th call panics, the panic is caught,
//! and the ledger (no value dropped twice), the allocator audit and the final drop of every world
//! are checked.  Every fault point runs in its own child process (an abort must not take the run
//! down).
use crate::comps::*;
use crate::core::*;
use crate::family::Family;
use crate::gen_reg4::Reg4;
use crate::rng::Rng;
use std::panic::{catch_unwind, AssertUnwindSafe};
use std::sync::atomic::Ordering;

type F = Reg4;

const OPS: &[(&str, &[Callback])] = &[
    ("remove-first", &[Callback::Drop]),
    ("remove-last", &[Callback::Drop]),
    ("clear", &[Callback::Drop]),
    ("add-overwrite", &[Callback::Drop]),
    ("add-move", &[Callback::Drop]),
    ("del", &[Callback::Drop]),
    ("write", &[Callback::Drop]),
    ("clone", &[Callback::Clone]),
    ("clonefrom-smaller", &[Callback::Clone, Callback::Drop]),
    ("clonefrom-larger", &[Callback::Clone, Callback::Drop]),
    // destination tables with fewer rows than the source's but enough spare capacity (a used, then
    // cleared world) / with exactly the source's rows: the column loop neither truncates nor reallocates
    ("clonefrom-cleared", &[Callback::Clone, Callback::Drop]),
    ("clonefrom-same", &[Callback::Clone, Callback::Drop]),
    ("drop", &[Callback::Drop]),
    ("eq", &[Callback::Eq]),
    ("debug", &[Callback::Debug]),
    ("serialize-rows", &[Callback::Serialize]),
    ("serialize-cols", &[Callback::Serialize]),
    ("deserialize-rows", &[Callback::Deserialize]),
    ("deserialize-cols", &[Callback::Deserialize]),
    ("query-body", &[Callback::Body]),
    ("extend", &[Callback::Drop]),
];

fn cb_name(c: Callback) -> &'static str {
    match c {
        Callback::Drop => "Drop",
        Callback::Clone => "Clone",
        Callback::Eq => "PartialEq",
        Callback::Debug => "Debug",
        Callback::Serialize => "Serialize",
        Callback::Deserialize => "Deserialize",
        Callback::Body => "Body",
    }
}

struct Setup {
    a: <F as Family>::W,
    b: <F as Family>::W,
    /// every table of `a` with twice the rows, then cleared (tables and capacity stay)
    d: <F as Family>::W,
    /// the tables of `a` with the same number of rows, other values
    e: <F as Family>::W,
    ids: Vec<Id>,
}

/// Two small worlds with multi-column archetypes, built from the case seed.
fn build(seed: u64) -> Setup {
    let mut rng = Rng::new(seed);
    let mut next = 1u64;
    let mut val = || { next += 1; next };
    let mut a = F::new_world(&[val(), val(), val()]);
    let mut b = F::new_world(&[val(), val(), val()]);
    let mut d = F::new_world(&[val(), val(), val()]);
    let mut e = F::new_world(&[val(), val(), val()]);
    let shapes: [&[u8]; 4] = [&[0, 2, 3], &[0, 2], &[2, 3, 0, 1], &[3, 0]];
    let mut ids = Vec::new();
    let na = 2 + rng.below(4);
    for _ in 0..na {
        let s = shapes[rng.below(4) as usize];
        let v: Vec<u64> = s.iter().map(|_| val()).collect();
        ids.push(F::insert(&mut a, s, &v).unwrap().verif_parts());
        for _ in 0..2 {
            let v: Vec<u64> = s.iter().map(|_| val()).collect();
            F::insert(&mut d, s, &v);
        }
        let v: Vec<u64> = s.iter().map(|_| val()).collect();
        F::insert(&mut e, s, &v);
    }
    F::clear(&mut d);
    let nb = rng.below(4);
    for _ in 0..nb {
        let s = shapes[rng.below(4) as usize];
        let v: Vec<u64> = s.iter().map(|_| val()).collect();
        F::insert(&mut b, s, &v);
    }
    Setup { a, b, d, e, ids }
}

/// Run the chosen op; user-code panics propagate to the caller (`catch_unwind` outside).
fn run_op(op: &str, s: &mut Setup, rng: &mut Rng) {
    let first = s.ids.first().cloned().unwrap_or((0, 0));
    let last = s.ids.last().cloned().unwrap_or((0, 0));
    EPOCH.store(3, Ordering::SeqCst);
    match op {
        "remove-first" => F::remove(&mut s.a, mk_ident(first)),
        "remove-last" => F::remove(&mut s.a, mk_ident(last)),
        "clear" => F::clear(&mut s.a),
        "add-overwrite" => { F::add(&mut s.a, mk_ident(first), 0, 900); }
        "add-move" => { F::add(&mut s.a, mk_ident(first), 1, 0); }
        "del" => { F::del(&mut s.a, mk_ident(first), 0); }
        "write" => { F::write(&mut s.a, mk_ident(first), 0, 901); }
        "clone" => { let c = F::clone_world(&s.a); drop(c); }
        "clonefrom-smaller" => F::clone_from(&mut s.b, &s.a),
        "clonefrom-larger" => F::clone_from(&mut s.a, &s.b),
        "clonefrom-cleared" => F::clone_from(&mut s.d, &s.a),
        "clonefrom-same" => F::clone_from(&mut s.e, &s.a),
        "drop" => { let w = std::mem::replace(&mut s.a, F::new_world(&[1, 2, 3])); drop(w); }
        "eq" => { let c = F::clone_world(&s.a); let _ = F::eq(&s.a, &c); drop(c); }
        "debug" => { let _ = F::debug(&s.a); }
        "serialize-rows" => { let _ = F::ser_tokens(&s.a, true); }
        "serialize-cols" => { let _ = F::ser_tokens(&s.a, false); }
        "deserialize-rows" | "deserialize-cols" => {
            let rows = op == "deserialize-rows";
            disarm_keep_counts();
            let t = F::ser_tokens(&s.a, rows).unwrap();
            rearm();
            let _ = F::de_tokens(t, rows);
        }
        "query-body" => {
            // a panic in the body of a loop over a mutable query
            let qs = F::queries();
            let q = qs.iter().find(|q| q.0 == "m0,id" && q.1 == "none").or_else(|| qs.iter().find(|q| q.0.contains('m'))).unwrap();
            let _ = (q.2)(&mut s.a, 0, Some(5));
        }
        "extend" => { let _ = F::extend(&mut s.a, &[0, 2, 3], &[vec![950, 951, 952], vec![953, 954, 955]]); }
        _ => {}
    }
    let _ = rng;
}

/// Keep using both worlds through the safe API after the fault: read every row, probe / read /
/// write / remove through every identifier known before the fault, insert again.
fn post_use(s: &mut Setup) {
    let _ = F::rows(&mut s.a);
    let _ = F::rows(&mut s.b);
    let _ = F::rows(&mut s.d);
    let _ = F::rows(&mut s.e);
    for id in s.ids.clone() {
        let i = mk_ident(id);
        let _ = F::contains(&s.a, i);
        let _ = F::has_entry(&mut s.a, i);
        let _ = F::chain(&mut s.a, i, &[(3, 0, 0), (3, 2, 0), (3, 3, 0)]);
        let _ = F::write(&mut s.a, i, 0, 990);
        let _ = F::chain(&mut s.b, i, &[(3, 0, 0), (3, 2, 0)]);
        let _ = F::chain(&mut s.d, i, &[(3, 0, 0), (3, 2, 0)]);
        let _ = F::chain(&mut s.e, i, &[(3, 0, 0), (3, 3, 0)]);
    }
    for id in s.ids.clone() {
        F::remove(&mut s.a, mk_ident(id));
        F::remove(&mut s.b, mk_ident(id));
    }
    let _ = F::insert(&mut s.a, &[0, 2], &[991, 992]);
    let _ = F::insert(&mut s.b, &[0, 2, 3], &[993, 994, 995]);
    let _ = F::rows(&mut s.a);
    let _ = F::rows(&mut s.b);
}

static SAVED: std::sync::atomic::AtomicI64 = std::sync::atomic::AtomicI64::new(-1);
static SAVED_CB: std::sync::atomic::AtomicUsize = std::sync::atomic::AtomicUsize::new(0);

fn disarm_keep_counts() {
    for (i, f) in FAULT.iter().enumerate() {
        let v = f.swap(-1, Ordering::SeqCst);
        if v >= 0 {
            SAVED.store(v, Ordering::SeqCst);
            SAVED_CB.store(i, Ordering::SeqCst);
        }
    }
}

fn rearm() {
    let v = SAVED.swap(-1, Ordering::SeqCst);
    if v >= 0 {
        FAULT[SAVED_CB.load(Ordering::SeqCst)].store(v, Ordering::SeqCst);
    }
}

/// One fault point, in this process. Prints one line.
pub fn point(seed: u64, op: &str, cb: Callback, k: i64) {
    reset_ledger();
    let mut s = build(seed);
    let mut rng = Rng::new(seed ^ 0x55);
    take_drops();
    let base = crate::alloc_audit::snapshot();
    if k < 0 {
        // dry run: count the calls of this callback
        arm(cb, i64::MAX);
        let _ = catch_unwind(AssertUnwindSafe(|| run_op(op, &mut s, &mut rng)));
        let n = calls(cb);
        disarm();
        println!("count {}", n);
        return;
    }
    arm(cb, k);
    let r = catch_unwind(AssertUnwindSafe(|| run_op(op, &mut s, &mut rng)));
    disarm();
    let panicked = r.is_err();
    let mut errs = take_errors();
    // the worlds must stay usable through the safe API after the panic (a stale identifier or a
    // stale row would make these calls read or write outside the live rows: caught as a crash by
    // std's checks on unchecked accesses, or by the self-checking payloads) …
    let r3 = catch_unwind(AssertUnwindSafe(|| post_use(&mut s)));
    errs.extend(take_errors());
    // … and droppable, with no value dropped twice and nothing freed twice
    let r2 = catch_unwind(AssertUnwindSafe(move || drop(s)));
    errs.extend(take_errors());
    let now = crate::alloc_audit::snapshot();
    let mut outcome = String::from("ok");
    if errs.iter().any(|e| e.contains("double-or-unknown-drop")) {
        outcome = format!("double-drop {}", errs.iter().filter(|e| e.contains("double")).take(3).cloned().collect::<Vec<_>>().join("; ").replace(' ', "_"));
    } else if !errs.is_empty() {
        outcome = format!("payload-error {}", errs[0].replace(' ', "_"));
    } else if now.2 != base.2 || now.3 != base.3 {
        outcome = "alloc-error".to_string();
    } else if r2.is_err() {
        outcome = "drop-panicked".to_string();
    } else if let Err(e) = &r3 {
        let msg = e.downcast_ref::<String>().cloned().or_else(|| e.downcast_ref::<&str>().map(|s| s.to_string())).unwrap_or_default();
        outcome = format!("use-after-panic-panicked:{}", msg.replace(' ', "_"));
    }
    println!("result panicked={} {}", panicked as u8, outcome);
}

fn parse_cb(s: &str) -> Callback {
    match s {
        "Drop" => Callback::Drop,
        "Clone" => Callback::Clone,
        "PartialEq" => Callback::Eq,
        "Debug" => Callback::Debug,
        "Serialize" => Callback::Serialize,
        "Deserialize" => Callback::Deserialize,
        _ => Callback::Body,
    }
}

pub fn child(args: &[String]) {
    // faultpoint <seed> <op> <cb> <k>
    let seed: u64 = args[2].parse().unwrap();
    let k: i64 = args[5].parse().unwrap();
    point(seed, &args[3], parse_cb(&args[4]), k);
}

fn spawn(seed: u64, op: &str, cb: Callback, k: i64) -> (Option<i32>, String) {
    let exe = std::env::current_exe().unwrap();
    let out = std::process::Command::new(exe)
        .args(["faultpoint", &seed.to_string(), op, cb_name(cb), &k.to_string()])
        .output()
        .unwrap();
    (out.status.code(), String::from_utf8_lossy(&out.stdout).to_string())
}

/// Enumerate fault points: `fault --seed S --cases N`.
pub fn run(seed: u64, cases: u64, max_k: u64) {
    println!("case fault-{}", seed);
    let jobs: Vec<(u64, &str, Callback)> = (0..cases)
        .flat_map(|c| OPS.iter().flat_map(move |(op, cbs)| cbs.iter().map(move |cb| (seed * 1000 + c, *op, *cb))))
        .collect();
    let results: Vec<String> = {
        use rayon::prelude::*;
        jobs.par_iter()
            .flat_map(|(s, op, cb)| {
                let (code, out) = spawn(*s, op, *cb, -1);
                let n: u64 = out.lines().find_map(|l| l.strip_prefix("count ")).and_then(|v| v.trim().parse().ok()).unwrap_or(0);
                let mut lines = Vec::new();
                if code != Some(0) {
                    lines.push(format!("fault {} {} {} dry crashed-{:?}", s, op, cb_name(*cb), code));
                }
                let ks: Vec<u64> = if n <= max_k { (0..n).collect() } else { (0..max_k).map(|i| i * n / max_k).collect() };
                for k in ks {
                    let (code, out) = spawn(*s, op, *cb, k as i64);
                    let res = out.lines().find_map(|l| l.strip_prefix("result ")).map(|x| x.trim().to_string());
                    let outcome = match (code, res) {
                        (Some(0), Some(r)) => r,
                        (c, _) => format!("panicked=? crashed-{}", c.map(|x| x.to_string()).unwrap_or_else(|| "signal".into())),
                    };
                    lines.push(format!("fault {} {} {} {} {}", s, op, cb_name(*cb), k, outcome));
                }
                lines
            })
            .collect()
    };
    for l in results {
        println!("{}", l);
    }
}
