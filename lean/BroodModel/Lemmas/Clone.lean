/-
  `World::clone`: the copy satisfies the invariant, denotes the same map (values copied), is
  equal to the original, and cloning never reaches an unchecked access with a violated
  precondition (the identifier map built during the clone covers every location).
-/
import BroodModel.Lemmas.Eq

set_option linter.unusedSimpArgs false
set_option linter.unusedVariables false

namespace Brood
open Alloc

/-! ### list facts -/

theorem lookup_zip_index {keys : List Nat} {vals : List Nat} (hn : keys.Nodup) {k : Nat} {x y : Nat}
    (hk : keys[k]? = some x) (hv : vals[k]? = some y) : (keys.zip vals).lookup x = some y := by
  induction keys generalizing vals k with
  | nil => simp at hk
  | cons a as ih =>
    cases vals with
    | nil => simp at hv
    | cons b bs =>
      simp only [List.nodup_cons] at hn
      cases k with
      | zero =>
        simp at hk hv; subst hk; subst hv
        simp [List.lookup_cons]
      | succ k =>
        simp at hk hv
        have hne : x ≠ a := fun e => hn.1 (e ▸ List.mem_of_getElem? hk)
        have : (x == a) = false := by simpa using hne
        simp only [List.zip_cons_cons, List.lookup_cons, this]
        exact ih hn.2 hk hv

theorem lookup_zip_some {keys vals : List Nat} {x y : Nat} (h : (keys.zip vals).lookup x = some y) :
    ∃ k : Nat, keys[k]? = some x ∧ vals[k]? = some y := by
  induction keys generalizing vals with
  | nil => simp at h
  | cons a as ih =>
    cases vals with
    | nil => simp at h
    | cons b bs =>
      simp only [List.zip_cons_cons, List.lookup_cons] at h
      by_cases hxa : x = a
      · subst hxa; simp at h; subst h; exact ⟨0, rfl, rfl⟩
      · have : (x == a) = false := by simpa using hxa
        simp only [this] at h
        obtain ⟨k, h1, h2⟩ := ih h
        exact ⟨k + 1, by simpa using h1, by simpa using h2⟩

/-- In a list whose `j`-th element has handle `base + j`, lookup by handle is lookup by index. -/
theorem find_by_index (l : List Arch) (base : Nat)
    (h : ∀ (j : Nat) (b : Arch), l[j]? = some b → b.handle = base + j)
    (k : Nat) : l.find? (fun b => b.handle == base + k) = l[k]? := by
  induction l generalizing base k with
  | nil => simp
  | cons b bs ih =>
    have hb : b.handle = base := by simpa using h 0 b rfl
    have hrest : ∀ (j : Nat) (c : Arch), bs[j]? = some c → c.handle = (base + 1) + j := by
      intro j c hj
      have := h (j + 1) c (by simpa using hj)
      omega
    cases k with
    | zero => simp [List.find?_cons, hb]
    | succ k =>
      have hne : (b.handle == base + (k + 1)) = false := by simp [hb]
      simp only [List.find?_cons, hne, List.getElem?_cons_succ]
      rw [show base + (k + 1) = (base + 1) + k by omega]
      exact ih (base + 1) hrest k

theorem find_handle_lt_none (l : List Arch) (base : Nat)
    (h : ∀ (j : Nat) (b : Arch), l[j]? = some b → b.handle = base + j)
    {hd : Nat} (hlt : hd < base) : l.find? (fun b => b.handle == hd) = none := by
  apply List.find?_eq_none.mpr
  intro b hb
  obtain ⟨j, hj⟩ := List.getElem?_of_mem hb
  have := h j b hj
  simp; omega

/-! ### `Allocator::clone` with the handle map -/

theorem remap_go_spec (f : Nat → Option Nat) (ss : List Slot)
    (hres : ∀ s ∈ ss, ∀ l, s.loc = some l → ∃ h', f l.arch = some h') :
    ∃ ss', Alloc.remap.go f ss = .ok ss' ∧ ss'.length = ss.length ∧
      ∀ (i : Nat) (s : Slot), ss[i]? = some s →
        (s.loc = none → ss'[i]? = some ⟨s.gen, none⟩) ∧
        (∀ l, s.loc = some l → ∃ h', f l.arch = some h' ∧ ss'[i]? = some ⟨s.gen, some ⟨h', l.row⟩⟩) := by
  induction ss with
  | nil => exact ⟨[], rfl, rfl, by simp⟩
  | cons s ss ih =>
    obtain ⟨ss', h1, h2, h3⟩ := ih (fun t ht => hres t (by simp [ht]))
    cases hl : s.loc with
    | none =>
      refine ⟨⟨s.gen, none⟩ :: ss', by simp [Alloc.remap.go, h1, hl], by simp [h2], ?_⟩
      intro i t ht
      cases i with
      | zero => simp at ht; subst ht; simp [hl]
      | succ i => simp at ht; simpa using h3 i t ht
    | some l =>
      obtain ⟨h', hf⟩ := hres s (by simp) l hl
      refine ⟨⟨s.gen, some ⟨h', l.row⟩⟩ :: ss', by simp [Alloc.remap.go, h1, hl, hf], by simp [h2], ?_⟩
      intro i t ht
      cases i with
      | zero =>
        simp at ht; subst ht
        refine ⟨by simp [hl], ?_⟩
        intro l' hl'
        rw [hl] at hl'; cases hl'
        exact ⟨h', hf, rfl⟩
      | succ i => simp at ht; simpa using h3 i t ht

theorem remap_spec {a : Alloc} (f : Nat → Option Nat)
    (hres : ∀ s ∈ a.slots, ∀ l, s.loc = some l → ∃ h', f l.arch = some h') :
    ∃ al, a.remap f = .ok al ∧ al.free = a.free ∧ al.slots.length = a.slots.length ∧
      ∀ (i : Nat) (s : Slot), a.slots[i]? = some s →
        (s.loc = none → al.slots[i]? = some ⟨s.gen, none⟩) ∧
        (∀ l, s.loc = some l → ∃ h', f l.arch = some h' ∧ al.slots[i]? = some ⟨s.gen, some ⟨h', l.row⟩⟩) := by
  obtain ⟨ss', h1, h2, h3⟩ := remap_go_spec f a.slots hres
  exact ⟨⟨ss', a.free⟩, by simp [Alloc.remap, h1], rfl, h2, h3⟩

/-! ### remapping a lookup table -/

theorem remapLookup_spec (pairs : List (Nat × Nat)) (l : List (Mask × Nat))
    (hres : ∀ p ∈ l, ∃ h', World.mapH pairs p.2 = some h') :
    ∃ l', World.remapLookup pairs l = .ok l' ∧ l'.map (·.1) = l.map (·.1) ∧
      ∀ p' ∈ l', ∃ h, (p'.1, h) ∈ l ∧ World.mapH pairs h = some p'.2 := by
  induction l with
  | nil => exact ⟨[], rfl, rfl, by simp⟩
  | cons p ps ih =>
    obtain ⟨m, h⟩ := p
    obtain ⟨l', h1, h2, h3⟩ := ih (fun q hq => hres q (by simp [hq]))
    obtain ⟨h', hf⟩ := hres (m, h) (by simp)
    simp only at hf
    refine ⟨(m, h') :: l', by simp [World.remapLookup, hf, h1], by simp [h2], ?_⟩
    intro p' hp'
    rcases List.mem_cons.mp hp' with rfl | hp'
    · exact ⟨h, by simp, hf⟩
    · obtain ⟨h0, hm, hf0⟩ := h3 p' hp'
      exact ⟨h0, by simp [hm], hf0⟩

/-! ### the tables and the handle map of a clone -/

def cloneHs (w : World) (next : Nat) : List Nat := (List.range w.archs.length).map (next + ·)

def cloneArchs (w : World) (e next : Nat) : List Arch :=
  List.zipWith (fun a h' => World.Arch.cloneWith e h' a) w.archs (cloneHs w next)

def clonePairs (w : World) (next : Nat) : List (Nat × Nat) :=
  (w.archs.map (·.handle)).zip (cloneHs w next)

theorem cloneHs_getElem? (w : World) (next k : Nat) :
    (cloneHs w next)[k]? = if k < w.archs.length then some (next + k) else none := by
  unfold cloneHs
  rw [List.getElem?_map]
  by_cases h : k < w.archs.length
  · simp [List.getElem?_range h, h]
  · simp [h, List.getElem?_eq_none]

theorem cloneArchs_getElem? (w : World) (e next k : Nat) :
    (cloneArchs w e next)[k]? = (w.archs[k]?).map (World.Arch.cloneWith e (next + k)) := by
  unfold cloneArchs
  rw [List.getElem?_zipWith, cloneHs_getElem?]
  by_cases h : k < w.archs.length
  · simp [h, List.getElem?_eq_getElem h]
  · simp [h, List.getElem?_eq_none]

theorem cloneArchs_length (w : World) (e next : Nat) : (cloneArchs w e next).length = w.archs.length := by
  simp [cloneArchs, cloneHs, List.length_zipWith]

theorem cloneArchs_handle {w : World} {e next k : Nat} {b : Arch} (h : (cloneArchs w e next)[k]? = some b) :
    b.handle = next + k := by
  rw [cloneArchs_getElem?] at h
  cases ha : w.archs[k]? with
  | none => simp [ha] at h
  | some a => simp [ha] at h; rw [← h]; rfl

theorem find_clone (w : World) (e next k : Nat) :
    (cloneArchs w e next).find? (fun b => b.handle == next + k) = (cloneArchs w e next)[k]? :=
  find_by_index _ next (fun j b hj => cloneArchs_handle hj) k

theorem clonePairs_lookup {w : World} (hn : (w.archs.map (·.handle)).Nodup) (next : Nat) {k : Nat} {a : Arch}
    (ha : w.archs[k]? = some a) : World.mapH (clonePairs w next) a.handle = some (next + k) := by
  unfold World.mapH clonePairs
  apply lookup_zip_index hn (k := k)
  · simp [List.getElem?_map, ha]
  · rw [cloneHs_getElem?]
    simp [(List.getElem?_eq_some_iff.mp ha).1]

theorem clonePairs_some {w : World} {next h h' : Nat} (hl : World.mapH (clonePairs w next) h = some h') :
    ∃ (k : Nat) (a : Arch), w.archs[k]? = some a ∧ a.handle = h ∧ h' = next + k := by
  unfold World.mapH clonePairs at hl
  obtain ⟨k, h1, h2⟩ := lookup_zip_some hl
  rw [List.getElem?_map] at h1
  cases ha : w.archs[k]? with
  | none => simp [ha] at h1
  | some a =>
    simp [ha] at h1
    rw [cloneHs_getElem?] at h2
    by_cases hk : k < w.archs.length
    · simp [hk] at h2; exact ⟨k, a, ha, h1, h2.symm⟩
    · simp [hk] at h2

theorem clonePairs_of_find {w : World} (hi : Inv w) (next : Nat) {h : Nat} {a : Arch}
    (hf : w.findArch h = some a) :
    ∃ k : Nat, w.archs[k]? = some a ∧ World.mapH (clonePairs w next) h = some (next + k) := by
  obtain ⟨ham, hah⟩ := findArch_some hf
  obtain ⟨k, hk⟩ := List.getElem?_of_mem ham
  exact ⟨k, hk, by rw [← hah]; exact clonePairs_lookup hi.handles_nodup next hk⟩

/-- `clone` in closed form. -/
theorem clone_eq (w : World) (e next : Nat) :
    w.clone e next =
      match World.remapLookup (clonePairs w next) w.typeIds with
      | .ub x => .ub x
      | .ok tys =>
        match w.alloc.remap (World.mapH (clonePairs w next)) with
        | .ub x => .ub x
        | .ok al =>
          .ok { n := w.n, archs := cloneArchs w e next, typeIds := tys,
                foreign := (cloneArchs w e next).flatMap (fun a => [(a.mask, a.handle), (a.mask, a.handle)]),
                alloc := al, len := w.len, res := w.res.map (cloneVal e),
                next := next + w.archs.length } := rfl

/-! ### the cloned world -/

def cloneWorld (w : World) (e next : Nat) (tys : List (Mask × Nat)) (al : Alloc) : World :=
  { n := w.n, archs := cloneArchs w e next, typeIds := tys,
    foreign := (cloneArchs w e next).flatMap (fun a => [(a.mask, a.handle), (a.mask, a.handle)]),
    alloc := al, len := w.len, res := w.res.map (cloneVal e), next := next + w.archs.length }

/-- What the remapped lookup table and allocator of a clone look like. -/
structure CloneParts (w : World) (next : Nat) (tys : List (Mask × Nat)) (al : Alloc) : Prop where
  tys_keys : tys.map (·.1) = w.typeIds.map (·.1)
  tys_src : ∀ p' ∈ tys, ∃ h, (p'.1, h) ∈ w.typeIds ∧ World.mapH (clonePairs w next) h = some p'.2
  free : al.free = w.alloc.free
  slen : al.slots.length = w.alloc.slots.length
  slots : ∀ (i : Nat) (s : Slot), w.alloc.slots[i]? = some s →
    (s.loc = none → al.slots[i]? = some ⟨s.gen, none⟩) ∧
    (∀ l, s.loc = some l → ∃ h', World.mapH (clonePairs w next) l.arch = some h' ∧
      al.slots[i]? = some ⟨s.gen, some ⟨h', l.row⟩⟩)

/-- **`clone` never fails** on a world satisfying the invariant: the identifier map covers every
table the lookups and the allocator refer to. -/
theorem clone_parts {w : World} (hi : Inv w) (e next : Nat) :
    ∃ tys al, CloneParts w next tys al ∧ w.clone e next = .ok (cloneWorld w e next tys al) := by
  obtain ⟨tys, t1, t2, t3⟩ := remapLookup_spec (clonePairs w next) w.typeIds (by
    intro p hp
    obtain ⟨a, hfa, _⟩ := lookup_mask (hi.typeIds p hp)
    obtain ⟨k, _, hk⟩ := clonePairs_of_find hi next hfa
    exact ⟨_, hk⟩)
  obtain ⟨al, a1, a2, a3, a4⟩ := remap_spec (a := w.alloc) (World.mapH (clonePairs w next)) (by
    intro s hs l hl
    obtain ⟨i, hi'⟩ := List.getElem?_of_mem hs
    have hlt : i < w.alloc.slots.length := (List.getElem?_eq_some_iff.mp hi').1
    obtain ⟨a, hfa, _, _⟩ := ((slotOk_iff.mp (hi.slots i hlt)) s hi').2 l hl
    obtain ⟨k, _, hk⟩ := clonePairs_of_find hi next hfa
    exact ⟨_, hk⟩)
  refine ⟨tys, al, ⟨t2, t3, a2, a3, a4⟩, ?_⟩
  rw [clone_eq, t1, a1]
  rfl

theorem mem_cloneArchs {w : World} {e next : Nat} {b : Arch} :
    b ∈ cloneArchs w e next ↔
      ∃ (k : Nat) (a : Arch), w.archs[k]? = some a ∧ b = World.Arch.cloneWith e (next + k) a := by
  rw [List.mem_iff_getElem?]
  constructor
  · rintro ⟨k, hk⟩
    rw [cloneArchs_getElem?] at hk
    cases ha : w.archs[k]? with
    | none => simp [ha] at hk
    | some a => simp [ha] at hk; exact ⟨k, a, ha, hk.symm⟩
  · rintro ⟨k, a, ha, rfl⟩
    exact ⟨k, by rw [cloneArchs_getElem?, ha]; rfl⟩

theorem findArch_clone (w : World) (e next : Nat) (tys : List (Mask × Nat)) (al : Alloc) (k : Nat) :
    (cloneWorld w e next tys al).findArch (next + k) =
      (w.archs[k]?).map (World.Arch.cloneWith e (next + k)) := by
  unfold World.findArch cloneWorld
  simp only
  rw [find_clone, cloneArchs_getElem?]

theorem map_cloneArchs {β} (w : World) (e next : Nat) (f : Arch → β)
    (hf : ∀ a h', f (World.Arch.cloneWith e h' a) = f a) :
    (cloneArchs w e next).map f = w.archs.map f := by
  apply List.ext_getElem?
  intro k
  rw [List.getElem?_map, List.getElem?_map, cloneArchs_getElem?]
  cases w.archs[k]? with
  | none => rfl
  | some a => simp [hf]

theorem cloneArchs_handles (w : World) (e next : Nat) :
    (cloneArchs w e next).map (·.handle) = cloneHs w next := by
  apply List.ext_getElem?
  intro k
  rw [List.getElem?_map, cloneArchs_getElem?, cloneHs_getElem?]
  by_cases h : k < w.archs.length
  · simp [h, List.getElem?_eq_getElem h, World.Arch.cloneWith]
  · simp [h, List.getElem?_eq_none]

theorem cloneHs_nodup (w : World) (next : Nat) : (cloneHs w next).Nodup := by
  unfold cloneHs
  have : ((List.range w.archs.length).map (next + ·)).Pairwise (· < ·) :=
    List.pairwise_lt_range.map _ (by intro a b h; omega)
  exact this.imp (by intro a b h; omega)

/-- **The clone satisfies the invariant.** -/
theorem cloneWorld_inv {w : World} (hi : Inv w) {e next : Nat} {tys : List (Mask × Nat)} {al : Alloc}
    (cp : CloneParts w next tys al) : Inv (cloneWorld w e next tys al) := by
  have hfind := findArch_clone w e next tys al
  -- the handle a table is mapped to
  have hmap : ∀ {k : Nat} {a : Arch} {h' : Nat}, w.archs[k]? = some a →
      World.mapH (clonePairs w next) a.handle = some h' → h' = next + k := by
    intro k a h' ha hm
    rw [clonePairs_lookup hi.handles_nodup next ha] at hm
    exact (Option.some.inj hm).symm
  refine
    { free_nodup := ?_, free_inactive := ?_, slots := ?_, archs := ?_, masks_nodup := ?_,
      handles_nodup := ?_, typeIds := ?_, typeIds_nodup := ?_, foreign := ?_, len := ?_ }
  · show al.free.Nodup
    rw [cp.free]; exact hi.free_nodup
  · intro i hif
    show (al.slots[i]?).map (·.loc) = some none
    rw [show (cloneWorld w e next tys al).alloc.free = al.free from rfl, cp.free] at hif
    have := hi.free_inactive i hif
    cases hs : w.alloc.slots[i]? with
    | none => simp [hs] at this
    | some s =>
      simp [hs] at this
      rw [((cp.slots i s hs).1 this)]
      rfl
  · intro i hlt
    apply slotOk_iff.mpr
    intro s' hs'
    have hlt' : i < w.alloc.slots.length := by rw [← cp.slen]; exact hlt
    have hs : w.alloc.slots[i]? = some w.alloc.slots[i] := List.getElem?_eq_getElem hlt'
    generalize w.alloc.slots[i] = s at hs
    obtain ⟨w1, w2⟩ := (slotOk_iff.mp (hi.slots i hlt')) s hs
    obtain ⟨c1, c2⟩ := cp.slots i s hs
    cases hl : s.loc with
    | none =>
      have := c1 hl
      rw [show (cloneWorld w e next tys al).alloc.slots[i]? = al.slots[i]? from rfl, this] at hs'
      cases hs'
      refine ⟨fun _ => ?_, fun l hl' => by simp at hl'⟩
      show i ∈ al.free
      rw [cp.free]; exact w1 hl
    | some l =>
      obtain ⟨h', hm, hsl⟩ := c2 l hl
      rw [show (cloneWorld w e next tys al).alloc.slots[i]? = al.slots[i]? from rfl, hsl] at hs'
      cases hs'
      refine ⟨fun h => by simp at h, ?_⟩
      intro l' hl'
      simp only [Option.some.injEq] at hl'
      subst hl'
      obtain ⟨a, hfa, hrow, hnf⟩ := w2 l hl
      obtain ⟨k, hk, hk2⟩ := clonePairs_of_find hi next hfa
      rw [hk2] at hm; cases hm
      refine ⟨World.Arch.cloneWith e (next + k) a, ?_, hrow, ?_⟩
      · show (cloneWorld w e next tys al).findArch (next + k) = _
        rw [hfind, hk]; rfl
      · show i ∉ al.free
        rw [cp.free]; exact hnf
  · intro b hb
    apply archOk_iff.mpr
    obtain ⟨k, a, ha, rfl⟩ := mem_cloneArchs.mp hb
    have ok := hi.archOk (List.mem_of_getElem? ha)
    refine
      { mask_len := ok.mask_len, handle_lt := ?_, cols_len := ?_, cols_all_len := ?_, cols_ok := ?_,
        rows := ?_, foreign := ?_ }
    · show next + k < next + w.archs.length
      have := (List.getElem?_eq_some_iff.mp ha).1; omega
    · show (a.cols.map _).length = a.mask.count
      simp [ok.cols_len]
    · intro c hc
      show c.length = a.ids.length
      obtain ⟨c0, hc0, rfl⟩ := List.mem_map.mp hc
      simp [ok.cols_all_len c0 hc0]
    · intro j c ty hc hty
      show c.length = a.ids.length ∧ ∀ v ∈ c, v.ty = ty
      have hc' : (a.cols.map (fun c => c.map (cloneVal e)))[j]? = some c := hc
      rw [List.getElem?_map] at hc'
      cases hcj : a.cols[j]? with
      | none => simp [hcj] at hc'
      | some c0 =>
        simp [hcj] at hc'
        subst hc'
        obtain ⟨o1, o2⟩ := ok.cols_ok j c0 ty hcj hty
        refine ⟨by simp [o1], ?_⟩
        intro v hv
        obtain ⟨v0, hv0, rfl⟩ := List.mem_map.mp hv
        exact o2 v0 hv0
    · intro r id hr
      show al.slots[id.index]? = some ⟨id.gen, some ⟨next + k, r⟩⟩
      have hs := ok.rows r id hr
      obtain ⟨h', hm, hsl⟩ := (cp.slots id.index _ hs).2 ⟨a.handle, r⟩ rfl
      rw [hmap ha hm] at hsl
      exact hsl
    · show (a.mask, next + k) ∈ (cloneArchs w e next).flatMap _
      apply List.mem_flatMap.mpr
      exact ⟨World.Arch.cloneWith e (next + k) a, hb, by simp [World.Arch.cloneWith]⟩
  · show ((cloneArchs w e next).map (·.mask)).Nodup
    rw [map_cloneArchs w e next (·.mask) (fun _ _ => rfl)]; exact hi.masks_nodup
  · show ((cloneArchs w e next).map (·.handle)).Nodup
    rw [cloneArchs_handles]; exact cloneHs_nodup w next
  · intro p' hp'
    obtain ⟨h, hmem, hm⟩ := cp.tys_src p' hp'
    obtain ⟨a, hfa, hmask⟩ := lookup_mask (hi.typeIds _ hmem)
    simp only at hfa hmask
    obtain ⟨k, hk, hk2⟩ := clonePairs_of_find hi next hfa
    rw [hk2] at hm
    have hp2 : p'.2 = next + k := (Option.some.inj hm).symm
    unfold lookupOk
    rw [hp2, hfind, hk]
    simp [World.Arch.cloneWith, hmask]
  · show (tys.map (·.1)).Nodup
    rw [cp.tys_keys]; exact hi.typeIds_nodup
  · intro p hp
    obtain ⟨b, hb, hpb⟩ := List.mem_flatMap.mp hp
    obtain ⟨k, a, ha, rfl⟩ := mem_cloneArchs.mp hb
    have hp' : p = (a.mask, next + k) := by
      simp [World.Arch.cloneWith] at hpb; exact hpb
    subst hp'
    unfold lookupOk
    simp only
    rw [hfind, ha]
    simp [World.Arch.cloneWith]
  · show w.len = ((cloneArchs w e next).map (·.ids.length)).sum
    rw [map_cloneArchs w e next (·.ids.length) (fun _ _ => rfl)]; exact hi.len

/-! ### the clone denotes the same map and compares equal -/

theorem filterMap_map_map (f : Val → Val) (cols : List (List Val)) (r : Nat) :
    (cols.map (fun c => c.map f)).filterMap (fun c => c[r]?) = (cols.filterMap (fun c => c[r]?)).map f := by
  induction cols with
  | nil => rfl
  | cons c cs ih =>
    simp only [List.map_cons, List.filterMap_cons, List.getElem?_map]
    cases c[r]? with
    | none => simpa using ih
    | some v => simp [ih]

theorem cloneWorld_entity {w : World} (hi : Inv w) {e next : Nat} {tys : List (Mask × Nat)} {al : Alloc}
    (cp : CloneParts w next tys al) (id : Ident) :
    (cloneWorld w e next tys al).entity id = (w.entity id).map (fun vs => vs.map (cloneVal e)) := by
  unfold World.entity
  show (match al.get id with | none => none | some l => _) = _
  cases hs : w.alloc.slots[id.index]? with
  | none =>
    have hs' : al.slots[id.index]? = none := by
      rw [List.getElem?_eq_none_iff] at hs ⊢; rw [cp.slen]; exact hs
    rw [get_none_of_slot_none hs', get_none_of_slot_none hs]; rfl
  | some s =>
    obtain ⟨c1, c2⟩ := cp.slots id.index s hs
    cases hl : s.loc with
    | none =>
      have g1 : al.get id = none := by unfold Alloc.get; rw [c1 hl]; simp
      have g2 : w.alloc.get id = none := by unfold Alloc.get; rw [hs]; simp [hl]
      rw [g1, g2]; rfl
    | some l =>
      obtain ⟨h', hm, hsl⟩ := c2 l hl
      by_cases hg : s.gen = id.gen
      · have g1 : al.get id = some ⟨h', l.row⟩ := by unfold Alloc.get; rw [hsl]; simp [hg]
        have g2 : w.alloc.get id = some l := by unfold Alloc.get; rw [hs]; simp [hg, hl]
        obtain ⟨a, la, hh⟩ := hi.liveAt g2
        have hfl : w.findArch l.arch = some a := by rw [← hh]; exact la.find
        obtain ⟨k, hk, hk2⟩ := clonePairs_of_find hi next hfl
        rw [hk2] at hm
        have hh' : h' = next + k := (Option.some.inj hm).symm
        rw [g1, g2]
        simp only
        rw [← hh, la.find, hh']
        show (match (cloneWorld w e next tys al).findArch (next + k) with
          | none => none | some x => some (x.row l.row)) = _
        rw [findArch_clone, hk]
        simp only [Option.map_some, Arch.row, World.Arch.cloneWith]
        rw [filterMap_map_map]
      · have g1 : al.get id = none := by unfold Alloc.get; rw [hsl]; simp [hg]
        have g2 : w.alloc.get id = none := by unfold Alloc.get; rw [hs]; simp [hg]
        rw [g1, g2]; rfl

theorem eqv_cloneVal (e : Nat) (v : Val) : v.eqv (cloneVal e v) = true := by
  unfold Val.eqv cloneVal Val.base
  simp [epochBase]

theorem rowEqv_clone (e : Nat) (x : List Val) : rowEqv x (x.map (cloneVal e)) = true := by
  unfold rowEqv
  simp only [List.length_map, beq_self_eq_true, Bool.true_and]
  induction x with
  | nil => rfl
  | cons v vs ih => simp [eqv_cloneVal, ih]

theorem colsEqv_clone (e : Nat) (x : List (List Val)) :
    World.colsEqv x (x.map (fun c => c.map (cloneVal e))) = true := by
  unfold World.colsEqv
  simp only [List.length_map, beq_self_eq_true, Bool.true_and]
  induction x with
  | nil => rfl
  | cons c cs ih =>
    have := rowEqv_clone e c
    unfold rowEqv at this
    simp only [List.map_cons, List.zipWith_cons_cons, List.all_cons, id, this, ih, Bool.and_self]

theorem slotsEqv_of_pointwise {a b : World} (ss ts : List Slot) (hl : ss.length = ts.length)
    (h : ∀ (i : Nat) (s t : Slot), ss[i]? = some s → ts[i]? = some t → World.slotEqv a b s t = .ok true) :
    World.slotsEqv a b ss ts = .ok true := by
  induction ss generalizing ts with
  | nil => cases ts with
    | nil => rfl
    | cons _ _ => simp at hl
  | cons s ss ih =>
    cases ts with
    | nil => simp at hl
    | cons t ts =>
      simp only [World.slotsEqv, h 0 s t rfl rfl]
      exact ih ts (by simpa using hl) (fun i s' t' hs ht => h (i + 1) s' t' (by simpa using hs) (by simpa using ht))

/-- **A clone compares equal to the original.** -/
theorem cloneWorld_eq {w : World} (hi : Inv w) {e next : Nat} {tys : List (Mask × Nat)} {al : Alloc}
    (cp : CloneParts w next tys al) : World.eqWorld w (cloneWorld w e next tys al) = .ok true := by
  have hi' := cloneWorld_inv (e := e) hi cp
  apply (eqWorld_true_iff hi hi').mpr
  refine ⟨rfl, (cloneArchs_length w e next).symm, ?_, ?_, cp.free.symm, rowEqv_clone e w.res⟩
  · intro x hx
    obtain ⟨k, hk⟩ := List.getElem?_of_mem hx
    refine ⟨World.Arch.cloneWith e (next + k) x, mem_cloneArchs.mpr ⟨k, x, hk, rfl⟩, rfl, ?_⟩
    unfold World.archEqv
    simp [World.Arch.cloneWith, colsEqv_clone]
  · apply slotsEqv_of_pointwise
    · exact cp.slen.symm
    · intro i s t hs ht
      obtain ⟨c1, c2⟩ := cp.slots i s hs
      have ht' : al.slots[i]? = some t := ht
      unfold World.slotEqv
      cases hl : s.loc with
      | none =>
        rw [c1 hl] at ht'; cases ht'
        simp
      | some l =>
        obtain ⟨h', hm, hsl⟩ := c2 l hl
        rw [hsl] at ht'; cases ht'
        have hlt : i < w.alloc.slots.length := (List.getElem?_eq_some_iff.mp hs).1
        obtain ⟨a, hfa, _, _⟩ := ((slotOk_iff.mp (hi.slots i hlt)) s hs).2 l hl
        obtain ⟨k, hk, hk2⟩ := clonePairs_of_find hi next hfa
        rw [hk2] at hm
        have hh' : h' = next + k := (Option.some.inj hm).symm
        have m1 : w.maskOf l.arch = some a.mask := by simp [World.maskOf, hfa]
        have m2 : (cloneWorld w e next tys al).maskOf h' = some a.mask := by
          unfold World.maskOf
          rw [hh', findArch_clone, hk]; rfl
        simp [m1, m2]

/-- Everything about `clone` at once. -/
theorem clone_spec {w : World} (hi : Inv w) (e next : Nat) :
    ∃ w', w.clone e next = .ok w' ∧ Inv w' ∧ w'.n = w.n ∧ w'.len = w.len ∧
      (∀ id, w'.entity id = (w.entity id).map (fun vs => vs.map (cloneVal e))) ∧
      w'.res = w.res.map (cloneVal e) ∧ World.eqWorld w w' = .ok true := by
  obtain ⟨tys, al, cp, hc⟩ := clone_parts hi e next
  exact ⟨_, hc, cloneWorld_inv hi cp, rfl, rfl, cloneWorld_entity hi cp, rfl, cloneWorld_eq hi cp⟩

end Brood
