/-
  BroodModel.Sched — schedules: task descriptors, static conflict (driven by the *generated*
  verifier / merger tables), the greedy stager, and the run-time stage runner with add-ons.

  Mirrors src/system/schedule/{stager,scheduler,stages,stage}.rs, claim/{mod,verifier,merger}.rs,
  src/query/result/archetype_claims.rs, src/query/view/{claim,merge,sealed}.rs (EntryFilter).
-/
import BroodModel.Query
import BroodModel.Static

namespace Brood
open Static

/-- A task: what it is handed.  `res`: resource position and whether the view is mutable. -/
structure Task where
  views : List View
  filter : Filter
  entry : List View
  res : List (Nat × Bool)
deriving Repr, Inhabited

def viewVK : View → Option (Nat × VK)
  | .ref c => some (c, .ref)
  | .mut c => some (c, .mut)
  | .oref c => some (c, .oref)
  | .omut c => some (c, .omut)
  | .ident => none

/-- Component claims of a task: its views merged with its entry views (`view::Merge`). -/
def Task.claims (t : Task) : List (Nat × VK) := (t.views ++ t.entry).filterMap viewVK

/-- `Claim` of a task on component `c`. -/
def Task.claimOn (t : Task) (c : Nat) : Cl :=
  let ks := (t.claims.filter (fun p => p.1 == c)).map (·.2)
  if ks.any VK.isMut then .mutable else if ks.isEmpty then .none else .immutable

def Task.resClaimOn (t : Task) (p : Nat) : Cl :=
  let ks := (t.res.filter (fun q => q.1 == p)).map (·.2)
  if ks.any id then .mutable else if ks.isEmpty then .none else .immutable

/-- Specification of a static conflict: some component or resource is written by one task and
accessed by the other. -/
def Task.conflicts (n nres : Nat) (t u : Task) : Bool :=
  (List.range n).any (fun c => (t.claimOn c).conflicts (u.claimOn c)) ||
  (List.range nres).any (fun p => (t.resClaimOn p).conflicts (u.resClaimOn p))

/-! ### The decision the code computes (claim/mod.rs + verifier.rs + merger.rs), table-driven -/

/-- How component `c` is already claimed by `u` (the `Get<OldView, I>` lookup; `NotPresent`
otherwise).  Merged claims hold at most one view per component. -/
def oldOf (u : List (Nat × VK)) (c : Nat) : Old :=
  match u.find? (fun p => p.1 == c) with
  | some p => .claimed p.2
  | none => .notPresent

/-- `Verifier`: walk the new task's views against one earlier task's claims. -/
def verify (tbl : List VRow) (u : List (Nat × VK)) : List (Nat × VK) → D2
  | [] => .append
  | (c, k) :: rest =>
    match lookupV tbl k (oldOf u c) with
    | some .cut => .cut
    | some .next => verify tbl u rest
    | none => .cut      -- no impl: the schedule does not type-check; treated as a cut

/-- `Claims` + `Check`: against every task already in the stage. -/
def claimsDecision (tbl : List VRow) (new : List (Nat × VK)) : List (List (Nat × VK)) → D2
  | [] => .append
  | u :: us =>
    match verify tbl u new with
    | .cut => .cut
    | .append => claimsDecision tbl new us

def resVK (q : Nat × Bool) : Nat × VK := (q.1, if q.2 then .mut else .ref)

/-- The stager's decision for a new task against the current stage (components, resources, merged). -/
def stageDecision (tbl : List VRow) (mt : List (D2 × D2 × D2)) (stage : List Task) (t : Task) : D2 :=
  let dc := claimsDecision tbl t.claims (stage.map Task.claims)
  let dr := claimsDecision tbl (t.res.map resVK) (stage.map (fun u => u.res.map resVK))
  (lookupM mt dc dr).getD .cut

/-- Greedy in-order staging (`Stager` / `Cutoff` / `Scheduler`). -/
def stagesAux (tbl : List VRow) (mt : List (D2 × D2 × D2)) : List Task → List Task → List (List Task)
  | [], cur => if cur.isEmpty then [] else [cur]
  | t :: ts, cur =>
    if cur.isEmpty then stagesAux tbl mt ts [t]
    else
      match stageDecision tbl mt cur t with
      | .append => stagesAux tbl mt ts (cur ++ [t])
      | .cut => cur :: stagesAux tbl mt ts [t]

def stages (tbl : List VRow) (mt : List (D2 × D2 × D2)) (ts : List Task) : List (List Task) :=
  stagesAux tbl mt ts []

/-! ### Run time: per-archetype claims, add-ons (stage.rs) -/

/-- The archetypes a task may touch: `Or<And<Views, Filter>, EntryViewsFilter>`. -/
def Task.matchesArch (t : Task) (m : Mask) : Bool :=
  (viewsFilter m t.views && t.filter.eval m) ||
  t.entry.any (fun v => match v.comp? with | some c => m.has c | none => false)

/-- Claim vector over the registry (`R::Claims`). -/
def Task.claimVec (n : Nat) (t : Task) : List Cl := (List.range n).map t.claimOn
def Task.resVec (nres : Nat) (t : Task) : List Cl := (List.range nres).map t.resClaimOn

def tryMergeCl (tm : List (Cl × Cl × Option Cl)) (a b : Cl) : Option Cl := (lookupCl tm a b).getD none

/-- `Claims::try_merge` on vectors. -/
def tryMergeVec (tm : List (Cl × Cl × Option Cl)) : List Cl → List Cl → Option (List Cl)
  | [], [] => some []
  | a :: as, b :: bs =>
    match tryMergeCl tm a b, tryMergeVec tm as bs with
    | some c, some cs => some (c :: cs)
    | _, _ => none
  | _, _ => none

/-- The stage's claim map: archetype (by mask) ↦ merged claims of the tasks that match it. -/
abbrev ClaimMap := List (Mask × List Cl)

def ClaimMap.get (m : ClaimMap) (k : Mask) : Option (List Cl) :=
  match m.find? (fun p => p.1 == k) with
  | some p => some p.2
  | none => none

def ClaimMap.set (m : ClaimMap) (k : Mask) (v : List Cl) : ClaimMap :=
  if m.any (fun p => p.1 == k) then m.map (fun p => if p.1 == k then (k, v) else p) else m ++ [(k, v)]

/-- `query_archetype_identifiers_unchecked` (after the D3 repair: merge on collision). -/
def addClaims (tm : List (Cl × Cl × Option Cl)) (n : Nat) (masks : List Mask) (t : Task) (m : ClaimMap) : ClaimMap :=
  (masks.filter t.matchesArch).foldl (fun acc k =>
    match acc.get k with
    | some old => acc.set k ((tryMergeVec tm (t.claimVec n) old).getD old)
    | none => acc.set k (t.claimVec n)) m

/-- `query_archetype_identifiers`: try to merge the add-on's claims into the map; `none` on conflict. -/
def tryAddClaims (tm : List (Cl × Cl × Option Cl)) (n : Nat) (masks : List Mask) (t : Task) (m : ClaimMap) : Option ClaimMap :=
  (masks.filter t.matchesArch).foldl (fun acc k =>
    match acc with
    | none => none
    | some acc =>
      match acc.get k with
      | some old =>
        match tryMergeVec tm (t.claimVec n) old with
        | some merged => some (acc.set k merged)
        | none => none
      | none => some (acc.set k (t.claimVec n))) (some m)

/-- `run_add_ons` over the next stage: which of its tasks start early. -/
def addOns (tm : List (Cl × Cl × Option Cl)) (n nres : Nat) (masks : List Mask) :
    List Task → ClaimMap → List Cl → List Bool
  | [], _, _ => []
  | t :: ts, m, rc =>
    match tryMergeVec tm (t.resVec nres) rc with
    | some rc' =>
      match tryAddClaims tm n masks t m with
      | some m' => true :: addOns tm n nres masks ts m' rc'
      | none => false :: addOns tm n nres masks ts m rc'
    | none => false :: addOns tm n nres masks ts m rc

/-- One stage: the tasks that have not run yet run now; then the next stage's add-ons.
Returns the phase (indices into the flattened task list are handled by the caller) as
`(ran : List Bool` over this stage, `hasRunNext : List Bool` over the next stage`)`. -/
def runStage (tm : List (Cl × Cl × Option Cl)) (n nres : Nat) (masks : List Mask)
    (stage : List Task) (hasRun : List Bool) (next : List Task) : List Bool × List Bool :=
  let ran := (List.zip stage hasRun).map (fun p => !p.2)
  let running := ((List.zip stage hasRun).filter (fun p => !p.2)).map (·.1)
  let cm := running.foldl (fun m t => addClaims tm n masks t m) ([] : ClaimMap)
  let rc := running.foldl (fun acc t => (tryMergeVec tm (t.resVec nres) acc).getD acc) (List.replicate nres Cl.none)
  if cm.isEmpty then (ran, next.map (fun _ => false))
  else (ran, addOns tm n nres masks next cm rc)

/-- Run all stages; the result is the list of phases, each a list of `(stage index, position)`. -/
def runStages (tm : List (Cl × Cl × Option Cl)) (n nres : Nat) (masks : List Mask) :
    Nat → List (List Task) → List Bool → List (List (Nat × Nat))
  | _, [], _ => []
  | k, st :: rest, hasRun =>
    let next := rest.headD []
    let (ran, hasRunNext) := runStage tm n nres masks st hasRun next
    let here := ((List.zip (List.range st.length) ran).filter (·.2)).map (fun p => (k, p.1))
    let early := ((List.zip (List.range next.length) hasRunNext).filter (·.2)).map (fun p => (k + 1, p.1))
    (here ++ early) :: runStages tm n nres masks (k + 1) rest hasRunNext

def phases (tm : List (Cl × Cl × Option Cl)) (n nres : Nat) (masks : List Mask) (sts : List (List Task)) :
    List (List (Nat × Nat)) :=
  runStages tm n nres masks 0 sts ((sts.headD []).map (fun _ => false))

end Brood
