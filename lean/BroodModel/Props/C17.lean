/-
  C17 — A panic in user code never leads to double drops or invalid memory.

  The full statement is FALSE on the current tree (recorded findings): a `Drop` panic inside
  `World::remove` (non-last row) and a `Clone` / `Drop` panic inside `World::clone_from` leave
  columns and the shared length inconsistent, so values are dropped a second time when the world
  is dropped.  Proved here: the mechanism of the (repaired) `clear` finding on the model (a
  concrete witness of the double drop for *every* non-empty column layout), that the length-first
  order is panic safe (leaks at worst), and for `Entry::remove` that dropping the detached
  component in the middle of the row move is not panic safe (witness) while dropping it last is;
  and the mechanism of the recorded `World::remove` finding (`C17_remove_drop_panic_double_drop`:
  for every column layout and row, a `Drop` panic in the column loop ends in a double drop) and of
  the recorded `World::clone_from` finding (`C17_clone_from_panic_double_drop`).  The fault-enumeration run checks every
  (operation, callback, position) of the table below on the real crate; pairs the table calls safe
  must show no double drop, no allocator error, no crash.  PARTIAL: unwinding itself, `Vec`'s
  internal guards and rayon's panic propagation are modelled from their documentation.
-/
import BroodModel.Fault
import BroodModel.Lemmas.Ledger

namespace Brood

/-- **The `clear` finding, for every layout**: if clearing is interrupted by a `Drop` panic in
column `j`, every value of columns `0..=j` (that the shared length still covers) is dropped again
when the archetype is dropped. -/
theorem C17_clear_drop_panic_double_drop (cols : List (List Val)) (j : Nat)
    (hlen : ∀ c ∈ cols, c.length = (cols.headD []).length) :
    let (d1, st) := clearFault cols j
    ∀ v ∈ d1, v ∈ st.dropAll := by
  simp only [clearFault, RawArch.dropAll]
  intro v hv
  simp only [List.mem_flatten] at hv
  obtain ⟨c, hc, hvc⟩ := hv
  have hcm : c ∈ cols := List.mem_of_mem_take hc
  simp only [List.mem_flatMap]
  refine ⟨c, hcm, ?_⟩
  rw [← hlen c hcm, List.take_length]
  exact hvc

/-- A concrete instance: two columns of two values, panic in the first column: both of its
values are dropped by the operation and again by the world's drop. -/
def witnessCols : List (List Val) := [[⟨0, 1⟩, ⟨0, 2⟩], [⟨2, 3⟩, ⟨2, 4⟩]]

example : (clearFault witnessCols 0).1 = [⟨0, 1⟩, ⟨0, 2⟩] ∧
    (clearFault witnessCols 0).2.dropAll = [⟨0, 1⟩, ⟨0, 2⟩, ⟨2, 3⟩, ⟨2, 4⟩] ∧
    ((clearFault witnessCols 0).1 ++ (clearFault witnessCols 0).2.dropAll).Nodup = False := by
  refine ⟨by decide, by decide, ?_⟩
  simp [clearFault, witnessCols, RawArch.dropAll]

/-- **Length-first is panic safe**: with the shared length zeroed before the loop, nothing the
interrupted operation dropped is dropped again (the untouched columns leak). -/
theorem C17_clear_length_first_safe (cols : List (List Val)) (j : Nat) :
    let (_, st) := clearFaultLengthFirst cols j
    st.dropAll = [] := by
  simp [clearFaultLengthFirst, RawArch.dropAll]

/-- **The `World::remove` finding (recorded, not repaired), for every layout**: if removing row
`index` is interrupted by a `Drop` panic in column `j`, some value is dropped twice once the
archetype is dropped — the removed value itself when the row was the last one, the last row's value
(now present in two slots) otherwise. -/
theorem C17_remove_drop_panic_double_drop (c0 : List Val) (rest : List (List Val)) (index j : Nat)
    (hi : index < c0.length) :
    ¬ NoDoubleDrop ((removeFault (c0 :: rest) index j).1 ++ (removeFault (c0 :: rest) index j).2.dropAll) := by
  unfold NoDoubleDrop
  intro hnd
  have hne : c0 ≠ [] := by intro h; simp [h] at hi
  obtain ⟨l, hl⟩ : ∃ l, c0.getLast? = some l := by
    cases h : c0.getLast? with
    | none => exact absurd (List.getLast?_eq_none_iff.mp h) hne
    | some l => exact ⟨l, rfl⟩
  have hlast : c0[c0.length - 1]? = some l := by
    rw [List.getLast?_eq_getElem?] at hl; exact hl
  simp only [removeFault, List.take_succ_cons, List.filterMap_cons, List.getElem?_eq_getElem hi,
    List.headD_cons, List.map_cons, hl, RawArch.dropAll, List.cons_append, List.flatMap_cons] at hnd
  have hlen : (c0.set index l).length = c0.length := by simp
  rw [← hlen, List.take_length] at hnd
  by_cases hlastrow : index = c0.length - 1
  · -- the removed value is dropped by the operation and again by the archetype's drop
    have hsame : c0.set index l = c0 := by
      apply List.ext_getElem?
      intro k
      by_cases hk : k = index
      · subst hk
        rw [List.getElem?_set_self hi, hlastrow]; rw [hlastrow] at hi
        exact hlast.symm
      · rw [List.getElem?_set_ne (Ne.symm hk)]
    rw [hsame] at hnd
    have h1 := (List.nodup_cons.mp hnd).1
    apply h1
    simp only [List.mem_append]
    right; left
    exact List.getElem_mem hi
  · -- the last row's value now sits in two slots covered by the shared length
    have hlt : index < c0.length - 1 := by omega
    have hsub : (c0.set index l).Nodup := by
      have h2 := (List.nodup_cons.mp hnd).2
      have h3 := (List.nodup_append.mp h2).2.1
      exact (List.nodup_append.mp h3).1
    have ha : (c0.set index l)[index]? = some l := List.getElem?_set_self hi
    have hb : (c0.set index l)[c0.length - 1]? = some l := by
      rw [List.getElem?_set_ne (by omega)]; exact hlast
    have hi' : index < (c0.set index l).length := by simpa using hi
    have hj' : c0.length - 1 < (c0.set index l).length := by simp; omega
    have hpw := List.pairwise_iff_getElem.mp (List.nodup_iff_pairwise_ne.mp hsub) index (c0.length - 1) hi' hj' hlt
    apply hpw
    have e1 := List.getElem?_eq_getElem hi'
    have e2 := List.getElem?_eq_getElem hj'
    rw [ha] at e1; rw [hb] at e2
    exact Option.some.inj (e1.symm.trans e2)

/-- Instance: removing the first of two rows, panic in the first column. -/
example : (removeFault witnessCols 0 0).1 = [⟨0, 1⟩] ∧
    (removeFault witnessCols 0 0).2.dropAll = [⟨0, 2⟩, ⟨0, 2⟩, ⟨2, 3⟩, ⟨2, 4⟩] := by
  refine ⟨by decide, by decide⟩

/-- **The `World::clone_from` finding (recorded, not repaired)**: when the destination table holds
more rows than the source and a `Clone` panics in column `j`, the values `Vec::clone_from` cut off
column `j` before cloning are dropped by the operation and — still covered by the stale shared
length — again when the archetype is dropped. -/
theorem C17_clone_from_panic_double_drop (e : Nat) (dst src : List (List Val)) (j : Nat)
    (hd : ∀ c ∈ dst, c.length = (dst.headD []).length) :
    ∀ v ∈ ((dst.drop j).headD []).drop ((src.drop j).headD []).length,
      v ∈ (cloneFromFault e dst src j).1 ∧ v ∈ (cloneFromFault e dst src j).2.dropAll := by
  intro v hv
  refine ⟨by simp only [cloneFromFault]; exact List.mem_append_right _ hv, ?_⟩
  simp only [cloneFromFault, RawArch.dropAll, List.flatMap_append, List.mem_append]
  right
  cases hdj : dst.drop j with
  | nil => simp [hdj] at hv
  | cons c rest =>
    rw [hdj] at hv
    simp only [List.headD_cons] at hv
    have hc : c ∈ dst := List.mem_of_mem_drop (by rw [hdj]; simp)
    simp only [List.flatMap_cons, List.mem_append]
    left
    rw [← hd c hc, List.take_length]
    exact List.mem_of_mem_drop hv

/-- Instance: destination of two rows, source of one, panic while cloning the first column: the
cut-off value `⟨0, 2⟩` is dropped twice. -/
example : (cloneFromFault 1 witnessCols [[⟨0, 7⟩], [⟨2, 8⟩]] 0).1 = [⟨0, 2⟩] ∧
    (cloneFromFault 1 witnessCols [[⟨0, 7⟩], [⟨2, 8⟩]] 0).2.dropAll = [⟨0, 1⟩, ⟨0, 2⟩, ⟨2, 3⟩, ⟨2, 4⟩] := by
  refine ⟨by decide, by decide⟩

/-! ### `Entry::remove`: where the detached component is dropped

`Entry::remove` pops the entity's row into a byte buffer (fixing the location of the row that is
swapped into its place), pushes the row minus the detached component into the target table, and
re-points the entity's slot.  Originally the detached component was never dropped (a leak, C04).
Repair 885588c dropped it while the row was being pushed: a panicking `Drop` then left the world
in the state `entryRemoveMidFault` below.  Repair 7197610 drops it last. -/

/-- The state a `Drop` panic in the middle of the move leaves behind: the row has left its table
(`takeRowAt`), nothing else has happened — in particular the entity's slot still names the old row. -/
def entryRemoveMidFault (w : World) (id : Ident) : Out World :=
  match w.alloc.get id with
  | none => .ok w
  | some loc =>
    match w.takeRowAt loc.arch loc.row with
    | .ok (w1, _, _) => .ok w1
    | .ub e => .ub e

/-- **Mid-move is not panic safe** (witness): the state left behind violates the invariant — a
live identifier whose location names a row that is no longer there — so later safe calls index
outside the live rows. -/
example :
    (match run (World.init 2 []) [.insert [0, 1] [⟨0, 1⟩, ⟨1, 2⟩]] with
     | .ok w =>
       (match entryRemoveMidFault w ⟨0, 0⟩ with
        | .ok w1 => (invB w, invB w1, (w1.alloc.get ⟨0, 0⟩).isSome, w1.archs.map (·.ids.length))
        | .ub _ => (false, true, false, []))
     | .ub _ => (false, true, false, [])) = (true, false, true, [0]) := by decide

/-- **Drop-last is panic safe**: when the detached component is dropped as the last step, the
state a panicking `Drop` leaves behind is the complete result of `Entry::remove`, which satisfies
the invariant and denotes the expected map — the world stays fully usable, nothing is dropped
twice (the detached value was moved out of the columns before its `Drop` ran). -/
theorem C17_entry_remove_drop_last_safe {w w' : World} {id : Ident} {c : Nat} {res : Option (List Val)}
    (hi : Inv w) (e : w.entryRemove id c = .ok (w', res)) :
    Inv w' ∧ w'.len = w.len ∧
    w'.entity id = (w.entity id).map (fun vs => vs.filter (fun v => v.ty ≠ c)) ∧
    (∀ id', id' ≠ id → w'.entity id' = w.entity id') ∧
    (∀ x, w'.cnt x + (res.getD []).count x = w.cnt x) := by
  obtain ⟨h1, h2, h3, _⟩ := entryRemove_entity hi e
  exact ⟨entryRemove_inv hi e, h3, h1, h2, fun x => entryRemove_cnt x hi e⟩

/-- Callbacks that only read (`PartialEq`, `Debug`, `Serialize`, a system body) are safe for
every operation; `Clone` is safe inside `clone`. -/
theorem C17_read_only_safe (op : String) :
    faultSafe op "PartialEq" = true ∧ faultSafe op "Debug" = true ∧
    faultSafe op "Serialize" = true ∧ faultSafe op "Body" = true ∧ faultSafe "clone" "Clone" = true := by
  simp [faultSafe]

end Brood

#print axioms Brood.C17_clear_drop_panic_double_drop
#print axioms Brood.C17_clear_length_first_safe
#print axioms Brood.C17_remove_drop_panic_double_drop
#print axioms Brood.C17_clone_from_panic_double_drop
#print axioms Brood.C17_read_only_safe
#print axioms Brood.C17_entry_remove_drop_last_safe
