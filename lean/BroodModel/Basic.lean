/-
  BroodModel.Basic — shared vocabulary of the model of Anders429/brood.

  Model files import nothing outside core Lean, so that the line-protocol driver links as a native
  executable.  Everything here is total and computable.
-/

namespace Brood

/-- Undefined-behaviour classes: every `*_unchecked` / raw-parts precondition the code relies on.
The model performs each of them *checked* and returns `Out.ub` when the precondition fails. -/
inductive UB
  | oobSlot        -- `slots.get_unchecked(i)` with `i ≥ slots.len()`
  | inactiveSlot   -- `location.as_mut().unwrap_unchecked()` on an inactive slot
  | noArchetype    -- `archetypes.get_unchecked_mut(id)` / `unreachable_unchecked` on a missing table
  | oobRow         -- row index `≥ length`
  | colCount       -- number of columns differs from the number of set bits
  | typeConfusion  -- a column read as another component type
  | uninitRead     -- `assume_init` / `unwrap_unchecked` on an absent sub-view
  | lenMismatch    -- column length differs from the shared length
  | mapMiss        -- `identifier_map.get(..).unwrap_unchecked()` on a missing key
deriving DecidableEq, Repr, Inhabited

/-- Outcome of a modelled operation. -/
inductive Out (α : Type) where
  | ok (a : α)
  | ub (why : UB)
deriving Repr

namespace Out

@[inline] def bind {α β : Type} (x : Out α) (f : α → Out β) : Out β :=
  match x with
  | ok a => f a
  | ub w => ub w

instance : Monad Out where
  pure := Out.ok
  bind := Out.bind

@[simp] theorem bind_ok {α β} (a : α) (f : α → Out β) : (Out.ok a >>= f) = f a := rfl
@[simp] theorem bind_ub {α β} (w : UB) (f : α → Out β) : ((Out.ub w : Out α) >>= f) = Out.ub w := rfl
@[simp] theorem pure_eq {α} (a : α) : (pure a : Out α) = Out.ok a := rfl

def isOk {α} : Out α → Bool
  | ok _ => true
  | ub _ => false

/-- Lift an `Option`, turning `none` into the given UB class. -/
@[inline] def ofOption {α} (w : UB) : Option α → Out α
  | some a => ok a
  | none => ub w

@[simp] theorem ofOption_some {α} (w : UB) (a : α) : ofOption w (some a) = ok a := rfl
@[simp] theorem ofOption_none {α} (w : UB) : ofOption w (none : Option α) = ub w := rfl

end Out

/-- A component value with an identity.  `ty` is the position of its type in the registry
(0 = head of the registry hlist); `id` is the ledger identity the harness gave it. -/
structure Val where
  ty : Nat
  id : Nat
deriving DecidableEq, Repr, Inhabited

/-- `entity::Identifier`. -/
structure Ident where
  index : Nat
  gen : Nat
deriving DecidableEq, Repr, Inhabited

/-- Component set of an archetype: one Boolean per registry position (length `N`). -/
abbrev Mask := List Bool

/-! ### `Vec::swap_remove` -/

/-- `Vec::swap_remove(i)`: the last element takes the place of element `i`. (For `i` out of
range the real call panics; callers in the model check the range first.) -/
def swapRemove {α} (l : List α) (i : Nat) : List α :=
  match l.getLast? with
  | none => l
  | some last => (l.set i last).dropLast

/-! ### Identifier bits -/

/-- Column of component `c` inside an archetype with mask `m`: the number of set bits before `c`
(the "bit walk" every `registry/sealed/*.rs` function performs alongside the registry type). -/
def colIndex (m : Mask) (c : Nat) : Nat := (m.take c).count true

/-- Number of component columns of an archetype. -/
def Mask.count (m : Mask) : Nat := List.count true m

/-- Is component `c` present? Out-of-range positions are absent. -/
def Mask.has (m : Mask) (c : Nat) : Bool := m.getD c false

/-- The components present, in registry order. -/
def Mask.comps (m : Mask) : List Nat :=
  (List.range m.length).filter (fun c => m.has c)

/-- The mask of a written entity shape over a registry of length `n`. -/
def Mask.ofShape (n : Nat) (shape : List Nat) : Mask :=
  (List.range n).map (fun c => shape.contains c)

/-! ### Byte packing of identifiers (`archetype::Identifier`: `(N+7)/8` bytes, LSB first) -/

/-- Value of up to eight bits, least significant first. -/
def bitsToNat : List Bool → Nat
  | [] => 0
  | b :: bs => (if b then 1 else 0) + 2 * bitsToNat bs

/-- Pack a mask into bytes, eight bits per byte, LSB first, zero padded: `(N+7)/8` bytes. -/
def Mask.pack (m : Mask) : List Nat :=
  (List.range ((m.length + 7) / 8)).map (fun k => bitsToNat ((m.drop (8 * k)).take 8))

/-- Bit `c` of a byte string: `bytes[c / 8] >> (c % 8) & 1 != 0` (`IdentifierRef::get_unchecked`).
Missing bytes read as zero. -/
def bitAt (bytes : List Nat) (c : Nat) : Bool := (bytes.getD (c / 8) 0) / 2 ^ (c % 8) % 2 == 1

/-- Unpack `n` bits from bytes. -/
def Mask.unpack (n : Nat) (bytes : List Nat) : Mask := (List.range n).map (bitAt bytes)

/-- Are the padding bits (positions `≥ n`) of the byte string all zero and is the byte count
`(n+7)/8`?  This is the check `archetype/identifier/impl_serde.rs` performs. -/
def validBytes (n : Nat) (bytes : List Nat) : Bool :=
  bytes.length == (n + 7) / 8 && bytes.all (· < 256) && Mask.pack (Mask.unpack n bytes) == bytes

/-- The byte-level `|= 1 << (c % 8)` of `Entry::add` on byte `c / 8`. -/
def setBitBytes (bytes : List Nat) (c : Nat) : List Nat :=
  bytes.set (c / 8) ((bytes.getD (c / 8) 0) ||| (1 <<< (c % 8)))

/-- The byte-level `^= 1 << (c % 8)` of `Entry::remove` on byte `c / 8`. -/
def xorBitBytes (bytes : List Nat) (c : Nat) : List Nat :=
  bytes.set (c / 8) ((bytes.getD (c / 8) 0) ^^^ (1 <<< (c % 8)))

/-! ### Printing helpers used by the driver (kept here so every layer prints the same way) -/

def Mask.toStr (m : Mask) : String :=
  String.ofList (m.map (fun b => if b then '1' else '0'))

def Ident.toStr (i : Ident) : String := s!"({i.index},{i.gen})"

def joinWith (sep : String) (l : List String) : String :=
  match l with
  | [] => ""
  | x :: xs => xs.foldl (fun acc s => acc ++ sep ++ s) x

/-- Insertion sort on strings (dumps are small; keeps the driver free of any library dependency
whose ordering could differ from the harness's byte-wise sort). -/
def insertSorted (s : String) : List String → List String
  | [] => [s]
  | x :: xs => if s ≤ x then s :: x :: xs else x :: insertSorted s xs

def sortStrings (l : List String) : List String := l.foldr insertSorted []

def insertSortedNat (s : Nat) : List Nat → List Nat
  | [] => [s]
  | x :: xs => if s ≤ x then s :: x :: xs else x :: insertSortedNat s xs

def sortNats (l : List Nat) : List Nat := l.foldr insertSortedNat []

end Brood
