/-
  BroodModel.Serde — token-level model of brood's `Serialize` / `Deserialize` impls.

  Mirrors src/world/impl_serde.rs, src/archetypes/impl_serde.rs, src/archetype/impl_serde.rs
  (row-wise when human readable, column-wise otherwise), src/archetype/identifier/impl_serde.rs
  (padding check), src/entity/identifier/impl_serde.rs, src/entity/allocator/impl_serde.rs
  (`from_serialized_parts`), src/resource/{ser,de}.rs — over the token vocabulary of
  `serde_assert` 0.5 and with that deserializer's framing rules (a `Tuple{len}` header must carry
  the requested length; after a visitor returns, the next token must be the end token).
-/
import BroodModel.Dump

namespace Brood
namespace Serde

inductive Tok where
  | u8 (n : Nat)
  | u64 (n : Nat)
  | tupB (len : Nat)
  | tupE
  | seqB (len : Option Nat)
  | seqE
  | structB (name : String) (len : Nat)
  | field (name : String)
  | str (s : String)
  | structE
  | newtype (name : String)
  | other (s : String)
deriving DecidableEq, Repr, Inhabited

def Tok.toStr : Tok → String
  | .u8 n => s!"b{n}"
  | .u64 n => s!"u{n}"
  | .tupB l => s!"T{l}"
  | .tupE => "t"
  | .seqB (some l) => s!"Q{l}"
  | .seqB none => "Q?"
  | .seqE => "q"
  | .structB n l => s!"S{n}:{l}"
  | .field n => s!"f{n}"
  | .str s => s!"r{s}"
  | .structE => "s"
  | .newtype n => s!"N{n}"
  | .other s => s!"x{s}"

def Tok.parse (s : String) : Tok :=
  let rest := (s.drop 1).toString
  match s.toList.head? with
  | some 'b' => match rest.toNat? with | some n => .u8 n | none => .other s
  | some 'u' => match rest.toNat? with | some n => .u64 n | none => .other s
  | some 'T' => match rest.toNat? with | some n => .tupB n | none => .other s
  | some 't' => if rest.isEmpty then .tupE else .other s
  | some 'Q' => if rest == "?" then .seqB none else match rest.toNat? with | some n => .seqB (some n) | none => .other s
  | some 'q' => if rest.isEmpty then .seqE else .other s
  | some 'S' =>
    match rest.splitOn ":" with
    | [n, l] => match l.toNat? with | some k => .structB n k | none => .other s
    | _ => .other s
  | some 'f' => .field rest
  | some 'r' => .str rest
  | some 's' => if rest.isEmpty then .structE else .other s
  | some 'N' => .newtype rest
  | _ => .other s

def parseToks (s : String) : List Tok :=
  if s == "-" then [] else (s.splitOn ",").map Tok.parse

def toksStr (l : List Tok) : String := if l.isEmpty then "-" else String.intercalate "," (l.map Tok.toStr)

/-! ### Serialization -/

def serIdent (i : Ident) : List Tok :=
  [.structB "Identifier" 2, .field "index", .u64 i.index, .field "generation", .u64 i.gen, .structE]

def serVal (v : Val) : List Tok := [.u64 v.id]

def serMask (m : Mask) : List Tok :=
  let bytes := m.pack
  [.tupB bytes.length] ++ bytes.map Tok.u8 ++ [.tupE]

def serRow (a : Arch) (r : Nat) : List Tok :=
  [.tupB (a.cols.length + 1)] ++ (match a.ids[r]? with | some i => serIdent i | none => []) ++
    a.cols.flatMap (fun c => match c[r]? with | some v => serVal v | none => []) ++ [.tupE]

def serArch (hr : Bool) (a : Arch) : List Tok :=
  [.newtype "Archetype", .tupB 3] ++ serMask a.mask ++ [.u64 a.ids.length] ++
  (if hr then
     [.tupB a.ids.length] ++ (List.range a.ids.length).flatMap (serRow a) ++ [.tupE]
   else
     [.tupB (a.cols.length + 1)] ++
       ([.tupB a.ids.length] ++ a.ids.flatMap serIdent ++ [.tupE]) ++
       a.cols.flatMap (fun c => [.tupB c.length] ++ c.flatMap serVal ++ [.tupE]) ++ [.tupE]) ++
  [.tupE]

def serAlloc (al : Alloc) : List Tok :=
  [.structB "Allocator" 2, .field "length", .u64 al.slots.length, .field "free",
   .seqB (some al.free.length)] ++
  al.free.flatMap (fun i => serIdent ⟨i, (al.slots.getD i default).gen⟩) ++
  [.seqE, .structE]

/-- `World::serialize` (archetypes in the model's order; the code iterates in hash order). -/
def serialize (hr : Bool) (w : World) : List Tok :=
  [.tupB 3] ++ ([.seqB (some w.archs.length)] ++ w.archs.flatMap (serArch hr) ++ [.seqE]) ++
  serAlloc w.alloc ++ ([.tupB w.res.length] ++ w.res.flatMap serVal ++ [.tupE]) ++ [.tupE]

/-! ### Deserialization: a recursive-descent reading of the token stream, visitor by visitor -/

abbrev P (α : Type) := List Tok → Except String (α × List Tok)

def next : P Tok
  | [] => .error "end-of-tokens"
  | t :: ts => .ok (t, ts)

/-- `SeqAccess::next_element`: is there an element before the end token? Consumes the end token. -/
def hasElem (endTok : Tok) : P Bool
  | [] => .error "end-of-tokens"
  | t :: ts => if t == endTok then .ok (false, ts) else .ok (true, t :: ts)

/-- `assert_ended`: unless already ended, the next token must be the end token. -/
def assertEnded (ended : Bool) (endTok : Tok) : P Unit := fun ts =>
  if ended then .ok ((), ts) else
  match ts with
  | [] => .error "end-of-tokens"
  | t :: ts' => if t == endTok then .ok ((), ts') else .error "expected-end-token"

def expectTup (len : Nat) : P Unit := fun ts =>
  match ts with
  | .tupB l :: ts' => if l = len then .ok ((), ts') else .error "invalid-length"
  | [] => .error "end-of-tokens"
  | _ => .error "invalid-type"

def deU64 : P Nat := fun ts =>
  match ts with
  | .u64 n :: ts' => .ok (n, ts')
  | [] => .error "end-of-tokens"
  | _ => .error "invalid-type"

def deU8 : P Nat := fun ts =>
  match ts with
  | .u8 n :: ts' => .ok (n, ts')
  | [] => .error "end-of-tokens"
  | _ => .error "invalid-type"

/-- An element of a fixed-arity visitor: `next_element()?.ok_or(invalid_length)`. -/
def elem {α} (endTok : Tok) (p : P α) : P α := fun ts =>
  match hasElem endTok ts with
  | .error e => .error e
  | .ok (false, _) => .error "invalid-length"
  | .ok (true, ts') => p ts'

/-- Field loop of a two-field struct visitor's `visit_map`. -/
def deFields (f1 f2 : String) : Nat → Option Nat → Option Nat → P (Nat × Nat)
  | 0, _, _ => fun _ => .error "fuel"
  | fuel + 1, a, b => fun ts =>
    match ts with
    | [] => .error "end-of-tokens"
    | .structE :: ts' =>
      match a, b with
      | some x, some y => .ok ((x, y), ts')
      | _, _ => .error "missing-field"
    | t :: ts' =>
      let name : Option String := match t with | .field n => some n | .str n => some n | _ => none
      match name with
      | none => .error "invalid-type"
      | some n =>
        if n == f1 then
          if a.isSome then .error "duplicate-field" else
          match deU64 ts' with
          | .error e => .error e
          | .ok (v, ts'') => deFields f1 f2 fuel (some v) b ts''
        else if n == f2 then
          if b.isSome then .error "duplicate-field" else
          match deU64 ts' with
          | .error e => .error e
          | .ok (v, ts'') => deFields f1 f2 fuel a (some v) ts''
        else .error "unknown-field"

/-- `entity::Identifier::deserialize`. -/
def deIdent : P Ident := fun ts =>
  match ts with
  | [] => .error "end-of-tokens"
  | .structB name _ :: ts' =>
    if name ≠ "Identifier" then .error "invalid-value" else
    match deFields "index" "generation" (ts'.length + 1) none none ts' with
    | .error e => .error e
    | .ok ((i, g), ts'') => .ok (⟨i, g⟩, ts'')
  | .seqB _ :: ts' =>
    match elem .seqE deU64 ts' with
    | .error e => .error e
    | .ok (i, ts1) =>
      match elem .seqE deU64 ts1 with
      | .error e => .error e
      | .ok (g, ts2) =>
        match assertEnded false .seqE ts2 with
        | .error e => .error e
        | .ok (_, ts3) => .ok (⟨i, g⟩, ts3)
  | _ => .error "invalid-type"

/-- `k` elements read with `p`, each through `elem`. -/
def elems {α} (endTok : Tok) (p : P α) : Nat → P (List α)
  | 0 => fun ts => .ok ([], ts)
  | k + 1 => fun ts =>
    match elem endTok p ts with
    | .error e => .error e
    | .ok (x, ts') =>
      match elems endTok p k ts' with
      | .error e => .error e
      | .ok (xs, ts'') => .ok (x :: xs, ts'')

/-- A counted tuple: header with exactly `len`, `len` elements, end token. -/
def tupleOf {α} (len : Nat) (p : P α) : P (List α) := fun ts =>
  match expectTup len ts with
  | .error e => .error e
  | .ok (_, ts1) =>
    match elems .tupE p len ts1 with
    | .error e => .error e
    | .ok (xs, ts2) =>
      match assertEnded false .tupE ts2 with
      | .error e => .error e
      | .ok (_, ts3) => .ok (xs, ts3)

/-- `archetype::Identifier::deserialize`: `(n+7)/8` bytes, padding bits of the last byte zero. -/
def deMask (n : Nat) : P Mask := fun ts =>
  match tupleOf ((n + 7) / 8) deU8 ts with
  | .error e => .error e
  | .ok (bytes, ts') =>
    let bad :=
      n ≠ 0 && n % 8 ≠ 0 && ((bytes.getD ((n + 7) / 8 - 1) 0) &&& ((255 <<< (n % 8)) % 256)) ≠ 0
    if bad then .error "invalid-padding" else .ok (Mask.unpack n bytes, ts')

/-- A component value: the harness types deserialize a `u64` identity and re-tag it with the
op's epoch; zero-sized kinds forget it. -/
def deVal (k : Kinds) (e : Nat) (ty : Nat) : P Val := fun ts =>
  match deU64 ts with
  | .error err => .error err
  | .ok (n, ts') =>
    .ok ((if k.kindOf ty == 'z' then ⟨ty, 0⟩ else ⟨ty, n % epochBase + e * epochBase⟩ : Val), ts')

/-- One row `(identifier, components…)` of a row-wise archetype. -/
def deRow (k : Kinds) (e : Nat) (comps : List Nat) : P (Ident × List Val) := fun ts =>
  match expectTup (comps.length + 1) ts with
  | .error err => .error err
  | .ok (_, ts1) =>
    match elem .tupE deIdent ts1 with
    | .error err => .error err
    | .ok (id, ts2) =>
      let rec go : List Nat → P (List Val)
        | [] => fun ts => .ok ([], ts)
        | c :: cs => fun ts =>
          match elem .tupE (deVal k e c) ts with
          | .error err => .error err
          | .ok (v, ts') =>
            match go cs ts' with
            | .error err => .error err
            | .ok (vs, ts'') => .ok (v :: vs, ts'')
      match go comps ts2 with
      | .error err => .error err
      | .ok (vs, ts3) =>
        match assertEnded false .tupE ts3 with
        | .error err => .error err
        | .ok (_, ts4) => .ok ((id, vs), ts4)

def transpose (ncols : Nat) (rows : List (List Val)) : List (List Val) :=
  (List.range ncols).map (fun c => rows.filterMap (fun r => r[c]?))

/-- Columns of a column-wise archetype, one counted tuple per component. -/
def deCols (k : Kinds) (e : Nat) (length : Nat) : List Nat → P (List (List Val))
  | [] => fun ts => .ok ([], ts)
  | c :: cs => fun ts =>
    match elem .tupE (tupleOf length (deVal k e c)) ts with
    | .error err => .error err
    | .ok (col, ts') =>
      match deCols k e length cs ts' with
      | .error err => .error err
      | .ok (cols, ts'') => .ok (col :: cols, ts'')

/-- Row-wise body of an archetype: `length` rows `(identifier, components…)`. -/
def deArchBodyRows (k : Kinds) (e h : Nat) (mask : Mask) (length : Nat) : P Arch := fun ts =>
  match tupleOf length (deRow k e mask.comps) ts with
  | .error err => .error err
  | .ok (rows, ts') =>
    .ok (⟨h, mask, rows.map (·.1), transpose mask.comps.length (rows.map (·.2))⟩, ts')

/-- Column-wise body of an archetype: the identifier column, then one column per component. -/
def deArchBodyCols (k : Kinds) (e h : Nat) (mask : Mask) (length : Nat) : P Arch := fun ts =>
  match expectTup (mask.comps.length + 1) ts with
  | .error err => .error err
  | .ok (_, tsa) =>
    match elem .tupE (tupleOf length deIdent) tsa with
    | .error err => .error err
    | .ok (ids, tsb) =>
      match deCols k e length mask.comps tsb with
      | .error err => .error err
      | .ok (cols, tsc) =>
        match assertEnded false .tupE tsc with
        | .error err => .error err
        | .ok (_, tsd) => .ok (⟨h, mask, ids, cols⟩, tsd)

/-- `Archetype::deserialize` with handle `h`. -/
def deArch (k : Kinds) (hr : Bool) (n e h : Nat) : P Arch := fun ts =>
  match ts with
  | [] => .error "end-of-tokens"
  | .newtype name :: ts0 =>
    if name ≠ "Archetype" then .error "invalid-value" else
    match expectTup 3 ts0 with
    | .error err => .error err
    | .ok (_, ts1) =>
      match elem .tupE (deMask n) ts1 with
      | .error err => .error err
      | .ok (mask, ts2) =>
        match elem .tupE deU64 ts2 with
        | .error err => .error err
        | .ok (length, ts3) =>
          match elem .tupE (if hr then deArchBodyRows k e h mask length
                            else deArchBodyCols k e h mask length) ts3 with
          | .error err => .error err
          | .ok (a, ts4) =>
            match assertEnded false .tupE ts4 with
            | .error err => .error err
            | .ok (_, ts5) => .ok (a, ts5)
  | _ => .error "invalid-type"

/-- `Archetypes::deserialize`: a sequence of archetypes with unique identifiers. -/
def deArchs (k : Kinds) (hr : Bool) (n e : Nat) : Nat → Nat → List Arch → P (List Arch)
  | 0, _, _ => fun _ => .error "fuel"
  | fuel + 1, h, acc => fun ts =>
    match hasElem .seqE ts with
    | .error err => .error err
    | .ok (false, ts') => .ok (acc, ts')
    | .ok (true, ts') =>
      match deArch k hr n e h ts' with
      | .error err => .error err
      | .ok (a, ts'') =>
        if acc.any (fun b => b.mask == a.mask) then .error "non-unique-identifier"
        else deArchs k hr n e fuel (h + 1) (acc ++ [a]) ts''

def deFree : Nat → List Ident → P (List Ident)
  | 0, _ => fun _ => .error "fuel"
  | fuel + 1, acc => fun ts =>
    match hasElem .seqE ts with
    | .error err => .error err
    | .ok (false, ts') => .ok (acc, ts')
    | .ok (true, ts') =>
      match deIdent ts' with
      | .error err => .error err
      | .ok (i, ts'') => deFree fuel (acc ++ [i]) ts''

def deFreeSeq : P (List Ident) := fun ts =>
  match ts with
  | .seqB _ :: ts' => deFree (ts'.length + 1) [] ts'
  | [] => .error "end-of-tokens"
  | _ => .error "invalid-type"

/-- Field loop of `Allocator`'s `visit_map` (`length : usize`, `free : Vec<Identifier>`). -/
def deAllocFields : Nat → Option Nat → Option (List Ident) → P (Nat × List Ident)
  | 0, _, _ => fun _ => .error "fuel"
  | fuel + 1, a, b => fun ts =>
    match ts with
    | [] => .error "end-of-tokens"
    | .structE :: ts' =>
      match a, b with
      | some x, some y => .ok ((x, y), ts')
      | _, _ => .error "missing-field"
    | t :: ts' =>
      let name : Option String := match t with | .field n => some n | .str n => some n | _ => none
      match name with
      | none => .error "invalid-type"
      | some nm =>
        if nm == "length" then
          if a.isSome then .error "duplicate-field" else
          match deU64 ts' with
          | .error e => .error e
          | .ok (v, ts'') => deAllocFields fuel (some v) b ts''
        else if nm == "free" then
          if b.isSome then .error "duplicate-field" else
          match deFreeSeq ts' with
          | .error e => .error e
          | .ok (v, ts'') => deAllocFields fuel a (some v) ts''
        else .error "unknown-field"

def deAllocParts : P (Nat × List Ident) := fun ts =>
  match ts with
  | [] => .error "end-of-tokens"
  | .structB name _ :: ts' =>
    if name ≠ "Allocator" then .error "invalid-value" else
    deAllocFields (ts'.length + 1) none none ts'
  | .seqB _ :: ts' =>
    match elem .seqE deU64 ts' with
    | .error e => .error e
    | .ok (l, ts1) =>
      match elem .seqE deFreeSeq ts1 with
      | .error e => .error e
      | .ok (f, ts2) =>
        match assertEnded false .seqE ts2 with
        | .error e => .error e
        | .ok (_, ts3) => .ok ((l, f), ts3)
  | _ => .error "invalid-type"

/-- Fill slot `i` (must be in range and still empty). -/
def fillSlot (slots : List (Option Slot)) (i : Nat) (s : Slot) (what : String) :
    Except String (List (Option Slot)) :=
  match slots[i]? with
  | none => .error (what ++ "-out-of-bounds")
  | some (some _) => .error ("duplicate-" ++ what)
  | some none => .ok (slots.set i (some s))

/-- `Allocator::from_serialized_parts`. -/
def fromParts (length : Nat) (free : List Ident) (archs : List Arch) : Except String Alloc :=
  let slots0 : List (Option Slot) := List.replicate length none
  let step1 := free.foldlM (fun sl (id : Ident) => fillSlot sl id.index ⟨id.gen, none⟩ "freed-entity-index") slots0
  match step1 with
  | .error e => .error e
  | .ok sl1 =>
    let rows : List (Ident × Loc) :=
      archs.flatMap (fun a => (List.zip a.ids (List.range a.ids.length)).map (fun p => (p.1, ⟨a.handle, p.2⟩)))
    match rows.foldlM (fun sl (p : Ident × Loc) => fillSlot sl p.1.index ⟨p.1.gen, some p.2⟩ "archetype-entity-index") sl1 with
    | .error e => .error e
    | .ok sl2 =>
      if sl2.any Option.isNone then .error "missing-entity-index"
      else .ok ⟨sl2.filterMap id, free.map (·.index)⟩

/-- The archetypes element of a serialized world: a sequence of archetypes. -/
def deArchsSeq (k : Kinds) (hr : Bool) (n e next : Nat) : P (List Arch) := fun ts =>
  match ts with
  | .seqB _ :: ts' => deArchs k hr n e (ts'.length + 1) next [] ts'
  | [] => .error "end-of-tokens"
  | _ => .error "invalid-type"

def deResGo (k : Kinds) (e : Nat) : List Nat → P (List Val)
  | [] => fun ts => .ok ([], ts)
  | p :: ps => fun ts =>
    match elem .tupE (deVal k e (resTy p)) ts with
    | .error err => .error err
    | .ok (v, ts') =>
      match deResGo k e ps ts' with
      | .error err => .error err
      | .ok (vs, ts'') => .ok (v :: vs, ts'')

/-- The resources element: a counted tuple of `nres` values. -/
def deRes (k : Kinds) (nres e : Nat) : P (List Val) := fun ts =>
  match expectTup nres ts with
  | .error err => .error err
  | .ok (_, tsa) =>
    match deResGo k e (List.range nres) tsa with
    | .error err => .error err
    | .ok (vs, tsb) =>
      match assertEnded false .tupE tsb with
      | .error err => .error err
      | .ok (_, tsc) => .ok (vs, tsc)

/-- The world assembled from deserialized parts. -/
def assemble (n next : Nat) (archs : List Arch) (al : Alloc) (res : List Val) : World :=
  { n := n, archs := archs, typeIds := [],
    foreign := archs.map (fun a => (a.mask, a.handle)),
    alloc := al, len := (archs.map (·.ids.length)).sum, res := res,
    next := next + archs.length }

/-- `World::deserialize`. `nres` resources, values re-tagged with epoch `e`, handles from `next`. -/
def deserialize (k : Kinds) (hr : Bool) (n nres e next : Nat) (toks : List Tok) : Except String World :=
  match expectTup 3 toks with
  | .error err => .error err
  | .ok (_, ts0) =>
    match elem .tupE (deArchsSeq k hr n e next) ts0 with
    | .error err => .error err
    | .ok (archs, ts1) =>
      match elem .tupE deAllocParts ts1 with
      | .error err => .error err
      | .ok ((length, free), ts2) =>
        match fromParts length free archs with
        | .error err => .error err
        | .ok al =>
          match elem .tupE (deRes k nres e) ts2 with
          | .error err => .error err
          | .ok (res, ts3) =>
            match assertEnded false .tupE ts3 with
            | .error err => .error err
            | .ok _ => .ok (assemble n next archs al res)

end Serde
end Brood
