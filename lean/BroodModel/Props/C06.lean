/-
  C06 — Serialize then deserialize reproduces the world exactly.

  Status of the proof: **partial**.  Proved for all inputs: whatever `deserialize` accepts
  satisfies the invariant and therefore behaves like any other world from then on
  (`C06_roundtrip_result_valid_partial`), and equality is decided soundly on the result (C16).
  That `deserialize (serialize w)` *succeeds* and compares equal to `w` for every reachable `w` is
  stated below (`RoundTrips`) and is, so far, established by kernel evaluation on sample worlds
  only (labelled as tests) and by the correspondence check on the real code (every `de` operation
  compares the real round trip with the model's, both encodings, and the real `==` with the
  original); the general proof needs the printer/parser inversion lemmas for every visitor.
-/
import BroodModel.Lemmas.DeInv

namespace Brood
open Serde

/-- The full statement of the round-trip property for one world. -/
def RoundTrips (k : Kinds) (hr : Bool) (e next : Nat) (w : World) : Prop :=
  ∃ w', deserialize k hr w.n w.res.length e next (serialize hr w) = .ok w' ∧
    World.eqWorld w w' = .ok true ∧ w'.len = w.len ∧
    ∀ id, entEqv (w.entity id) (w'.entity id) = true

/-- Whatever a round trip returns is a valid world: it satisfies the invariant, every admissible
history continued on it runs to completion, and it can be serialized / cloned / compared again. -/
theorem C06_roundtrip_result_valid_partial {k : Kinds} {hr : Bool} {e next : Nat} {w w' : World}
    (h : deserialize k hr w.n w.res.length e next (serialize hr w) = .ok w') :
    Inv w' ∧ (∀ ops, (∀ op ∈ ops, op.wt w'.n) → ∃ w'', run w' ops = .ok w'' ∧ Inv w'') := by
  have hi := deserialize_inv h
  refine ⟨hi, fun ops hwt => ?_⟩
  obtain ⟨w'', r1, r2, _⟩ := run_total hi ops hwt
  exact ⟨w'', r1, r2⟩

/-- If the round trip succeeds and the result compares equal, it denotes the same map (C16). -/
theorem C06_equal_means_same_map_partial {k : Kinds} {hr : Bool} {e next : Nat} {w w' : World}
    (hi : Inv w) (h : deserialize k hr w.n w.res.length e next (serialize hr w) = .ok w')
    (heq : World.eqWorld w w' = .ok true) :
    w'.len = w.len ∧ ∀ id, entEqv (w.entity id) (w'.entity id) = true := by
  obtain ⟨h1, _, h3⟩ := eqWorld_sound hi (deserialize_inv h) heq
  exact ⟨h1.symm, h3⟩

/-- Test (kernel evaluation, not a proof of the general claim): a reachable world with two tables,
a freed slot and a reused slot round-trips in both encodings and compares equal. -/
example :
    (match run (World.init 3 [])
        [.insert [1, 0] [⟨1, 11⟩, ⟨0, 10⟩], .insert [2] [⟨2, 20⟩], .insert [2] [⟨2, 21⟩], .remove ⟨1, 0⟩,
         .insert [0] [⟨0, 12⟩], .remove ⟨0, 0⟩] with
     | .ok w =>
       [true, false].map (fun hr =>
         match deserialize ⟨['s', 's', 's'], []⟩ hr 3 0 1 50 (serialize hr w) with
         | .ok w' => (match World.eqWorld w w' with | .ok r => r | .ub _ => false) && w'.len == w.len
         | .error _ => false)
     | .ub _ => []) = [true, true] := by decide +kernel

/-- Test: the empty world round-trips (both encodings). -/
example :
    [true, false].map (fun hr =>
      (deserialize ⟨[], []⟩ hr 4 0 1 0 (serialize hr (World.init 4 []))).toOption.isSome) = [true, true] := by
  decide +kernel

end Brood

#print axioms Brood.C06_roundtrip_result_valid_partial
#print axioms Brood.C06_equal_means_same_map_partial
