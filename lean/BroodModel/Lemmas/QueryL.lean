/-
  Queries: `World.query` (archetype filtering + column selection by the identifier bit walk)
  returns exactly what the reference `Spec.query` returns on the map the world denotes; it never
  reads an absent column, a wrong column or a row out of range.  Same for single-entity queries.
-/
import BroodModel.Lemmas.Entity

set_option linter.unusedSimpArgs false
set_option linter.unusedVariables false

namespace Brood
open Alloc

/-! ### rows as association lists -/

theorem find_ty_of_getElem {l : List Val} {k : Nat} {x : Val} {c : Nat} (hn : (l.map (·.ty)).Nodup)
    (hk : l[k]? = some x) (hx : x.ty = c) : l.find? (fun v => v.ty == c) = some x := by
  induction l generalizing k with
  | nil => simp at hk
  | cons y ys ih =>
    simp only [List.map_cons, List.nodup_cons] at hn
    cases k with
    | zero => simp at hk; subst hk; simp [List.find?_cons, hx]
    | succ k =>
      simp at hk
      have hne : y.ty ≠ c := by
        intro e
        exact hn.1 (List.mem_map.mpr ⟨x, List.mem_of_getElem? hk, by rw [hx, e]⟩)
      have : (y.ty == c) = false := by simpa using hne
      simp only [List.find?_cons, this]
      exact ih hn.2 hk

theorem find_ty_none {l : List Val} {c : Nat} (h : c ∉ l.map (·.ty)) :
    l.find? (fun v => v.ty == c) = none := by
  apply List.find?_eq_none.mpr
  intro v hv
  have : v.ty ≠ c := fun e => h (List.mem_map.mpr ⟨v, hv, e⟩)
  simpa using this

theorem sortVals_sorted {l : List Val} (h : (l.map (·.ty)).Pairwise (· < ·)) : Spec.sortVals l = l := by
  induction l with
  | nil => rfl
  | cons x xs ih =>
    simp only [List.map_cons, List.pairwise_cons] at h
    unfold Spec.sortVals at ih ⊢
    simp only [List.foldr_cons]
    rw [ih h.2]
    cases xs with
    | nil => rfl
    | cons y ys =>
      have := h.1 y.ty (by simp)
      simp [Spec.insertVal, this]

/-- The component set recomputed from a stored row is the table's mask. -/
theorem maskOf_row {w : World} {a : Arch} (ok : ArchOk w a) {r : Nat} (hr : r < a.ids.length) :
    Spec.maskOf w.n (a.row r) = a.mask := by
  unfold Spec.maskOf
  apply List.ext_getElem?
  intro c
  rw [List.getElem?_map]
  by_cases hc : c < w.n
  · rw [List.getElem?_range hc]
    have hcl : c < a.mask.length := by rw [ok.mask_len]; exact hc
    rw [List.getElem?_eq_getElem hcl]
    simp only [Option.map_some, Option.some.injEq]
    rw [any_ty_contains]
    unfold Arch.row
    rw [row_tys ok hr]
    have hh : a.mask.has c = a.mask[c] := by
      unfold Mask.has; simp [List.getD, List.getElem?_eq_getElem hcl]
    rw [← hh]
    cases hm : a.mask.has c with
    | true => simpa using mem_comps.mpr hm
    | false =>
      cases hcn : a.mask.comps.contains c with
      | false => rfl
      | true =>
        have := mem_comps.mp (by simpa using hcn : c ∈ a.mask.comps)
        rw [hm] at this; cases this
  · have h1 : (List.range w.n)[c]? = none := by simp [List.getElem?_eq_none, hc]
    have h2 : a.mask[c]? = none := by
      rw [List.getElem?_eq_none]; rw [ok.mask_len]; omega
    rw [h1, h2]; rfl

/-! ### one cell, one row -/

/-- The cell a view yields for a stored row equals the reference cell computed from the row's
values alone — whenever the table passes the views' filter. -/
theorem viewCell_eq {w : World} {a : Arch} (ok : ArchOk w a) {r : Nat} {id : Ident}
    (hid : a.ids[r]? = some id) {v : View} (hf : v.filter a.mask = true) :
    viewCell a r v = .ok (Spec.cellOf ⟨id, a.row r⟩ v) := by
  have hr : r < a.ids.length := (List.getElem?_eq_some_iff.mp hid).1
  have hnd : ((a.row r).map (·.ty)).Nodup := (row_sorted ok hr).imp (by intro x y h; omega)
  have present : ∀ c, a.mask.has c = true →
      compRead a r c =
        .ok (match (a.row r).find? (fun x => x.ty == c) with | some x => Cell.val x | none => Cell.absent) := by
    intro c hc
    obtain ⟨col, old, h1, h2, h3⟩ := cell_ok ok hc hr
    unfold compRead
    simp only [h1, h2, h3, if_true]
    rw [find_ty_of_getElem hnd (row_getElem ok hr h1 h2) h3]
  have absent : ∀ c, a.mask.has c = false → (a.row r).find? (fun x => x.ty == c) = none := by
    intro c hc
    apply find_ty_none
    unfold Arch.row
    rw [row_tys ok hr]
    intro hm
    rw [mem_comps.mp hm] at hc; cases hc
  match v, hf with
  | .ident, _ => simp [viewCell, hid, Spec.cellOf]
  | .ref c, hf =>
    have hc : a.mask.has c = true := hf
    simp only [viewCell, Spec.cellOf, hc, if_true]
    exact present c hc
  | .mut c, hf =>
    have hc : a.mask.has c = true := hf
    simp only [viewCell, Spec.cellOf, hc, if_true]
    exact present c hc
  | .oref c, _ =>
    cases hc : a.mask.has c with
    | true => simp only [viewCell, Spec.cellOf, hc, if_true]; exact present c hc
    | false => simp [viewCell, Spec.cellOf, hc, absent c hc]
  | .omut c, _ =>
    cases hc : a.mask.has c with
    | true => simp only [viewCell, Spec.cellOf, hc, if_true]; exact present c hc
    | false => simp [viewCell, Spec.cellOf, hc, absent c hc]

theorem rowCells_eq {w : World} {a : Arch} (ok : ArchOk w a) {r : Nat} {id : Ident}
    (hid : a.ids[r]? = some id) (vs : List View) (hf : viewsFilter a.mask vs = true) :
    rowCells a r vs = .ok (vs.map (Spec.cellOf ⟨id, a.row r⟩)) := by
  induction vs with
  | nil => rfl
  | cons v vs ih =>
    unfold viewsFilter at hf
    simp only [List.all_cons, Bool.and_eq_true] at hf
    simp only [rowCells, viewCell_eq ok hid hf.1, ih (by unfold viewsFilter; exact hf.2), List.map_cons]

/-- The entities a table stores, in row order. -/
def Arch.ents (a : Arch) : List Ent :=
  (List.range a.ids.length).filterMap (fun r =>
    match a.ids[r]? with
    | some id => some ⟨id, a.row r⟩
    | none => none)

theorem archRows_eq {w : World} {a : Arch} (ok : ArchOk w a) (vs : List View)
    (hf : viewsFilter a.mask vs = true) (k : Nat) (hk : k ≤ a.ids.length) :
    archRows a vs k = .ok (((List.range k).filterMap (fun r =>
      match a.ids[r]? with
      | some id => some (⟨id, a.row r⟩ : Ent)
      | none => none)).map (fun e => vs.map (Spec.cellOf e))) := by
  induction k with
  | zero => rfl
  | succ k ih =>
    have hkl : k < a.ids.length := by omega
    have hid : a.ids[k]? = some a.ids[k] := List.getElem?_eq_getElem hkl
    simp only [archRows, ih (by omega), rowCells_eq ok hid vs hf]
    rw [List.range_succ, List.filterMap_append, List.map_append]
    simp [hid]

/-! ### the whole query -/

theorem specMatches_eq (vs : List View) (f : Filter) (m : Mask) :
    specMatches vs f m = (viewsFilter m vs && f.eval m) := by
  unfold specMatches viewsFilter
  congr 1

/-- The map an L1 world denotes, as the list of stored entities (table order, row order). -/
def World.ents (w : World) : List Ent := w.archs.flatMap Arch.ents

theorem queryArchs_eq {w : World} (vs : List View) (f : Filter) (l : List Arch)
    (hok : ∀ a ∈ l, ArchOk w a) :
    queryArchs vs f l = .ok (((l.flatMap Arch.ents).filter
      (fun e => specMatches vs f (Spec.maskOf w.n e.vals))).map (fun e => vs.map (Spec.cellOf e))) := by
  induction l with
  | nil => rfl
  | cons a as ih =>
    have ok := hok a (by simp)
    simp only [queryArchs, ih (fun b hb => hok b (by simp [hb]))]
    -- every entity of `a` has `a`'s mask
    have hmask : ∀ e ∈ a.ents, Spec.maskOf w.n e.vals = a.mask := by
      intro e he
      unfold Arch.ents at he
      obtain ⟨r, hr, hre⟩ := List.mem_filterMap.mp he
      have hrl : r < a.ids.length := List.mem_range.mp hr
      rw [List.getElem?_eq_getElem hrl] at hre
      simp only [Option.some.injEq] at hre
      subst hre
      exact maskOf_row ok hrl
    rw [List.flatMap_cons, List.filter_append, List.map_append]
    by_cases hm : (viewsFilter a.mask vs && f.eval a.mask) = true
    · simp only [hm, if_true]
      have hvf : viewsFilter a.mask vs = true := by
        simp only [Bool.and_eq_true] at hm; exact hm.1
      rw [archRows_eq ok vs hvf a.ids.length (Nat.le_refl _)]
      have : a.ents.filter (fun e => specMatches vs f (Spec.maskOf w.n e.vals)) = a.ents := by
        apply List.filter_eq_self.mpr
        intro e he
        rw [hmask e he, specMatches_eq]; exact hm
      rw [this]
      rfl
    · have hm' : (viewsFilter a.mask vs && f.eval a.mask) = false := by
        cases hb : (viewsFilter a.mask vs && f.eval a.mask) with
        | false => rfl
        | true => exact absurd hb hm
      simp only [hm', Bool.false_eq_true, if_false]
      have : a.ents.filter (fun e => specMatches vs f (Spec.maskOf w.n e.vals)) = [] := by
        apply List.filter_eq_nil_iff.mpr
        intro e he
        rw [hmask e he, specMatches_eq, hm']; simp
      rw [this]
      rfl

/-- **A query returns exactly what the reference returns on the denoted map**, in storage order,
and never reaches an unchecked read with a violated precondition. -/
theorem query_eq_spec {w : World} (hi : Inv w) (vs : List View) (f : Filter) :
    w.query vs f = .ok (Spec.query w.n ⟨w.ents, w.res, []⟩ vs f) := by
  unfold World.query Spec.query World.ents
  exact queryArchs_eq vs f w.archs (fun a ha => hi.archOk ha)

/-- `World.ents` lists each live entity exactly once, with the values the map view gives it. -/
theorem mem_ents_iff {w : World} (hi : Inv w) {e : Ent} :
    e ∈ w.ents ↔ w.entity e.id = some e.vals := by
  unfold World.ents
  rw [entity_eq_some_iff hi]
  constructor
  · intro h
    obtain ⟨a, ha, he⟩ := List.mem_flatMap.mp h
    unfold Arch.ents at he
    obtain ⟨r, hr, hre⟩ := List.mem_filterMap.mp he
    have hrl : r < a.ids.length := List.mem_range.mp hr
    rw [List.getElem?_eq_getElem hrl] at hre
    simp only [Option.some.injEq] at hre
    subst hre
    exact ⟨a, ha, r, List.getElem?_eq_getElem hrl, rfl⟩
  · rintro ⟨a, ha, r, hr, hv⟩
    apply List.mem_flatMap.mpr
    refine ⟨a, ha, ?_⟩
    unfold Arch.ents
    apply List.mem_filterMap.mpr
    refine ⟨r, List.mem_range.mpr (List.getElem?_eq_some_iff.mp hr).1, ?_⟩
    rw [hr]
    cases e; simp_all

theorem ents_ids (w : World) : w.ents.map (·.id) = w.stored := by
  unfold World.ents World.stored
  rw [List.map_flatMap]
  congr 1
  funext a
  unfold Arch.ents
  apply List.ext_getElem?
  intro j
  rw [List.getElem?_map]
  -- filterMap over range with all-some is map
  have : (List.range a.ids.length).filterMap (fun r =>
      match a.ids[r]? with
      | some id => some (⟨id, a.row r⟩ : Ent)
      | none => none) = (List.range a.ids.length).map (fun r => ⟨a.ids.getD r default, a.row r⟩) := by
    apply filterMap_eq_map
    intro r hr
    have hrl : r < a.ids.length := List.mem_range.mp hr
    simp [List.getElem?_eq_getElem hrl, List.getD]
  rw [this, List.getElem?_map]
  by_cases hj : j < a.ids.length
  · simp [List.getElem?_range hj, List.getElem?_eq_getElem hj, List.getD]
  · simp [List.getElem?_eq_none, hj]

/-! ### single-entity queries -/

theorem entryQuery_eq {w : World} (hi : Inv w) (id : Ident) (vs : List View) (f : Filter) :
    w.entryQuery id vs f = .ok
      (match w.entity id with
       | none => none
       | some vals =>
         if specMatches vs f (Spec.maskOf w.n vals) then some (vs.map (Spec.cellOf ⟨id, vals⟩)) else none) := by
  unfold World.entryQuery
  cases hg : w.alloc.get id with
  | none => simp [entity_none_of_dead hg]
  | some loc =>
    obtain ⟨a, la, hh⟩ := hi.liveAt hg
    have hr : loc.row < a.ids.length := (List.getElem?_eq_some_iff.mp la.row).1
    simp only [← hh, la.find, entity_of_liveAt la, maskOf_row la.ok hr, specMatches_eq]
    by_cases hm : (viewsFilter a.mask vs && f.eval a.mask) = true
    · have hm2 : (f.eval a.mask && viewsFilter a.mask vs) = true := by rw [Bool.and_comm]; exact hm
      have hvf : viewsFilter a.mask vs = true := by
        simp only [Bool.and_eq_true] at hm; exact hm.1
      simp only [hm, hm2, if_true, rowCells_eq la.ok la.row vs hvf]
    · have hm' : (viewsFilter a.mask vs && f.eval a.mask) = false := by
        cases hb : (viewsFilter a.mask vs && f.eval a.mask) with
        | false => rfl
        | true => exact absurd hb hm
      have hm2 : (f.eval a.mask && viewsFilter a.mask vs) = false := by rw [Bool.and_comm]; exact hm'
      simp [hm', hm2]

/-- Entry queries through query-time `Entries`: any sub-view list the `SubViewable` table admits
gives the same answer as the direct entry query (and never reads an uninitialised super-view). -/
theorem entriesQuery_eq {w : World} (hi : Inv w) (evs : List View) (id : Ident) (subs : List View)
    (f : Filter) (hsub : subs.all (fun s => evs.any (fun v => subViewable s v)) = true) :
    w.entriesQuery evs id subs f = w.entryQuery id subs f := by
  unfold World.entriesQuery World.entryQuery
  cases hg : w.alloc.get id with
  | none => rfl
  | some loc =>
    simp only
    cases hf : w.findArch loc.arch with
    | none => rfl
    | some a => simp only [hsub, if_true]

/-! ### size_hint -/

theorem sizeHint_brackets (vs : List View) (f : Filter) (s : IterSt) :
    (sizeHint s).1 ≤ remaining vs f s ∧ ∀ h, (sizeHint s).2 = some h → remaining vs f s ≤ h := by
  unfold sizeHint remaining
  cases hr : s.rest with
  | nil => simp
  | cons a as => simp

/-! ### `World.abs` (what the driver's reference oracle computes from a dump) -/

theorem abs_eq_ents {w : World} (hi : Inv w) : w.abs = w.ents := by
  unfold World.abs World.ents
  have : ∀ l : List Arch, (∀ a ∈ l, ArchOk w a) →
      l.flatMap (fun a => (List.range a.ids.length).filterMap (fun r =>
        match a.ids[r]? with
        | some id => some (⟨id, Spec.sortVals (a.cols.filterMap (fun c => c[r]?))⟩ : Ent)
        | none => none)) = l.flatMap Arch.ents := by
    intro l
    induction l with
    | nil => intro _; rfl
    | cons a as ih =>
      intro hok
      rw [List.flatMap_cons, List.flatMap_cons, ih (fun b hb => hok b (by simp [hb]))]
      congr 1
      unfold Arch.ents
      apply filterMap_congr'
      intro r hr
      have hrl : r < a.ids.length := List.mem_range.mp hr
      rw [List.getElem?_eq_getElem hrl]
      have := sortVals_sorted (row_sorted (hok a (by simp)) hrl)
      unfold Arch.row at this ⊢
      simp only [this]
  exact this w.archs (fun a ha => hi.archOk ha)

end Brood
