/-
  Lock step, in full (C06 / C10): two worlds that hold the same map (values equal up to the
  component types' `PartialEq`), the same resources and the same allocator abstraction, and that
  receive the same operations, are issued the same identifiers and keep holding the same map — for
  every history.  Since every query is a function of the map (C03), this is "behaves identically
  under any further operations (same identifiers issued, same query results up to iteration
  order)".
-/
import BroodModel.Props.C01
import BroodModel.Lemmas.AllocAbs
import BroodModel.Props.C03

set_option linter.unusedSimpArgs false
set_option linter.unusedVariables false

namespace Brood

/-! ### rows equal up to `PartialEq` -/

@[simp] theorem rowEqv_nil : rowEqv [] [] = true := rfl
@[simp] theorem rowEqv_cons (a b : Val) (x y : List Val) :
    rowEqv (a :: x) (b :: y) = (a.eqv b && rowEqv x y) := by
  simp only [rowEqv, List.length_cons, List.zipWith_cons_cons, List.all_cons, id]
  by_cases h : x.length = y.length
  · simp [h, Bool.and_comm, Bool.and_left_comm]
  · have : ¬ x.length + 1 = y.length + 1 := by omega
    have hb : (x.length == y.length) = false := by simpa using h
    simp [h, this, hb]
@[simp] theorem rowEqv_nil_cons (b : Val) (y : List Val) : rowEqv [] (b :: y) = false := by simp [rowEqv]
@[simp] theorem rowEqv_cons_nil (a : Val) (x : List Val) : rowEqv (a :: x) [] = false := by simp [rowEqv]

theorem eqv_ty {a b : Val} (h : a.eqv b = true) : a.ty = b.ty := by
  simp [Val.eqv] at h; exact h.1

theorem rowEqv_insertVal (v : Val) : ∀ (x y : List Val), rowEqv x y = true →
    rowEqv (Spec.insertVal v x) (Spec.insertVal v y) = true := by
  intro x
  induction x with
  | nil =>
    intro y h
    cases y with
    | nil => simp [Spec.insertVal, Val.eqv_refl]
    | cons _ _ => simp at h
  | cons a x ih =>
    intro y h
    cases y with
    | nil => simp at h
    | cons b y =>
      simp only [rowEqv_cons, Bool.and_eq_true] at h
      have hty := eqv_ty h.1
      simp only [Spec.insertVal, hty]
      by_cases h1 : v.ty < b.ty
      · simp [h1, Val.eqv_refl, h.1, h.2]
      · by_cases h2 : v.ty = b.ty
        · simp [h1, h2, Val.eqv_refl, h.2]
        · simp [h1, h2, h.1, ih y h.2]

theorem rowEqv_filter_ty (c : Nat) : ∀ (x y : List Val), rowEqv x y = true →
    rowEqv (x.filter (fun v => v.ty ≠ c)) (y.filter (fun v => v.ty ≠ c)) = true := by
  intro x
  induction x with
  | nil =>
    intro y h
    cases y with
    | nil => simp
    | cons _ _ => simp at h
  | cons a x ih =>
    intro y h
    cases y with
    | nil => simp at h
    | cons b y =>
      simp only [rowEqv_cons, Bool.and_eq_true] at h
      have hty := eqv_ty h.1
      simp only [List.filter_cons, hty]
      have ih' := ih y h.2
      by_cases h1 : b.ty = c
      · simp only [h1, ne_eq, not_true_eq_false, decide_false, Bool.false_eq_true, if_false]
        exact ih'
      · simp only [h1, ne_eq, not_false_eq_true, decide_true, if_true, rowEqv_cons, h.1, Bool.true_and]
        exact ih'

theorem rowEqv_any_ty (c : Nat) : ∀ (x y : List Val), rowEqv x y = true →
    x.any (fun v => v.ty == c) = y.any (fun v => v.ty == c) := by
  intro x
  induction x with
  | nil =>
    intro y h
    cases y with
    | nil => rfl
    | cons _ _ => simp at h
  | cons a x ih =>
    intro y h
    cases y with
    | nil => simp at h
    | cons b y =>
      simp only [rowEqv_cons, Bool.and_eq_true] at h
      simp only [List.any_cons, eqv_ty h.1, ih y h.2]

/-! ### the reference step with the issued identifiers exposed -/

/-- `RefStep` with the identifiers the implementation issued. -/
def RefStepI (n : Nat) (m m' : EMap) : Op → List Ident → Prop
  | .insert shape vals, iss =>
      ∃ nid, iss = [nid] ∧ m nid = none ∧ m' = m.upd nid (some (World.canonVals n shape vals))
  | .extend shape rows, ids =>
      ids.length = rows.length ∧ ids.Nodup ∧ (∀ id ∈ ids, m id = none) ∧
        (∀ (k : Nat) (id : Ident) (r : List Val), ids[k]? = some id → rows[k]? = some r →
          m' id = some (World.canonVals n shape r)) ∧
        (∀ id', id' ∉ ids → m' id' = m id')
  | op, iss => iss = [] ∧ RefStep n m m' op

theorem step_refinesI {w w' : World} (hi : Inv w) {op : Op} (hwt : op.wt w.n)
    (e : step w op = .ok w') : RefStepI w.n w.entity w'.entity op (issued w op) := by
  have hr := C01_step_refines hi hwt e
  cases op with
  | insert shape vals =>
    obtain ⟨nid, h⟩ := fstOut_ok e
    obtain ⟨p1, p2, p3, _⟩ := insert_entity hi h
    exact ⟨nid, by simp [issued, h], p1, upd_ext p2 p3⟩
  | extend shape rows =>
    obtain ⟨ids, h⟩ := fstOut_ok e
    obtain ⟨q1, q2, q3, q4, q5, _⟩ := extend_entity hi h
    have : issued w (.extend shape rows) = ids := by simp [issued, h]
    rw [this]
    exact ⟨q1, q2, q3, q4, q5⟩
  | remove id => exact ⟨rfl, hr⟩
  | clear order => exact ⟨rfl, hr⟩
  | add id c v => exact ⟨rfl, hr⟩
  | del id c => exact ⟨rfl, hr⟩
  | write id c v => exact ⟨rfl, hr⟩
  | reserve shape => exact ⟨rfl, hr⟩
  | shrink => exact ⟨rfl, hr⟩

/-- Two maps that agree on every identifier up to `PartialEq` of the values. -/
def MapEqv (ma mb : EMap) : Prop := ∀ id, entEqv (ma id) (mb id) = true

theorem entEqv_map {f : List Val → List Val} (hf : ∀ x y, rowEqv x y = true → rowEqv (f x) (f y) = true)
    {x y : Option (List Val)} (h : entEqv x y = true) : entEqv (x.map f) (y.map f) = true := by
  cases x <;> cases y <;> simp [entEqv] at h ⊢
  exact hf _ _ h

theorem mapEqv_upd {ma mb : EMap} (h : MapEqv ma mb) (id : Ident) {x y : Option (List Val)}
    (hxy : entEqv x y = true) : MapEqv (ma.upd id x) (mb.upd id y) := by
  intro j
  unfold EMap.upd
  by_cases hj : j = id
  · simp [hj, hxy]
  · simp [hj, h j]

/-- **The reference step respects map equivalence**: the same operation (up to `clear`'s table
order) with the same issued identifiers, applied to equivalent maps, gives equivalent maps. -/
theorem refStepI_eqv {n : Nat} {ma ma' mb mb' : EMap} {opa opb : Op} {iss : List Ident}
    (h : MapEqv ma mb) (hop : opa.forget = opb.forget)
    (ra : RefStepI n ma ma' opa iss) (rb : RefStepI n mb mb' opb iss) : MapEqv ma' mb' := by
  cases opa with
  | insert shape vals =>
    cases opb <;> simp [Op.forget] at hop
    obtain ⟨rfl, rfl⟩ := hop
    obtain ⟨nid, h1, _, h3⟩ := ra
    obtain ⟨nid', h1', _, h3'⟩ := rb
    rw [h1] at h1'
    simp only [List.cons.injEq, and_true] at h1'
    subst h1'
    rw [h3, h3']
    exact mapEqv_upd h nid (by simp [entEqv, rowEqv_refl])
  | extend shape rows =>
    cases opb <;> simp [Op.forget] at hop
    obtain ⟨rfl, rfl⟩ := hop
    obtain ⟨l1, _, _, a4, a5⟩ := ra
    obtain ⟨_, _, _, b4, b5⟩ := rb
    intro id
    by_cases hid : id ∈ iss
    · obtain ⟨k, hk⟩ := List.getElem?_of_mem hid
      have hklt : k < iss.length := (List.getElem?_eq_some_iff.mp hk).1
      have hr : rows[k]? = some rows[k] := List.getElem?_eq_getElem (by omega)
      rw [a4 k id _ hk hr, b4 k id _ hk hr]
      simp [entEqv, rowEqv_refl]
    · rw [a5 id hid, b5 id hid]; exact h id
  | remove id =>
    cases opb <;> simp [Op.forget] at hop
    subst hop
    obtain ⟨_, ra⟩ := ra
    obtain ⟨_, rb⟩ := rb
    simp only [RefStep] at ra rb
    rw [ra, rb]
    exact mapEqv_upd h id (by simp [entEqv])
  | clear order =>
    cases opb <;> simp [Op.forget] at hop
    obtain ⟨_, ra⟩ := ra
    obtain ⟨_, rb⟩ := rb
    simp only [RefStep] at ra rb
    rw [ra, rb]
    intro _; rfl
  | add id c v =>
    cases opb <;> simp [Op.forget] at hop
    obtain ⟨rfl, rfl, rfl⟩ := hop
    obtain ⟨_, ra⟩ := ra
    obtain ⟨_, rb⟩ := rb
    simp only [RefStep] at ra rb
    rw [ra, rb]
    exact mapEqv_upd h id (entEqv_map (rowEqv_insertVal v) (h id))
  | del id c =>
    cases opb <;> simp [Op.forget] at hop
    obtain ⟨rfl, rfl⟩ := hop
    obtain ⟨_, ra⟩ := ra
    obtain ⟨_, rb⟩ := rb
    simp only [RefStep] at ra rb
    rw [ra, rb]
    exact mapEqv_upd h id (entEqv_map (rowEqv_filter_ty c) (h id))
  | write id c v =>
    cases opb <;> simp [Op.forget] at hop
    obtain ⟨rfl, rfl, rfl⟩ := hop
    obtain ⟨_, ra⟩ := ra
    obtain ⟨_, rb⟩ := rb
    simp only [RefStep] at ra rb
    rw [ra, rb]
    refine mapEqv_upd h id (entEqv_map ?_ (h id))
    intro x y hxy
    rw [rowEqv_any_ty c x y hxy]
    split
    · exact rowEqv_insertVal v x y hxy
    · exact hxy
  | reserve shape =>
    cases opb <;> simp [Op.forget] at hop
    obtain ⟨_, ra⟩ := ra
    obtain ⟨_, rb⟩ := rb
    simp only [RefStep] at ra rb
    rw [ra, rb]; exact h
  | shrink =>
    cases opb <;> simp [Op.forget] at hop
    obtain ⟨_, ra⟩ := ra
    obtain ⟨_, rb⟩ := rb
    simp only [RefStep] at ra rb
    rw [ra, rb]; exact h

/-- What two worlds must share to stay in lock step. -/
structure Twin (a b : World) : Prop where
  n : a.n = b.n
  abs : a.alloc.abs = b.alloc.abs
  map : MapEqv a.entity b.entity

theorem wt_forget {n : Nat} {opa opb : Op} (hop : opa.forget = opb.forget) (h : opa.wt n) : opb.wt n := by
  cases opa <;> cases opb <;> simp [Op.forget] at hop <;> simp_all [Op.wt]

/-- **Lock step, one operation.** -/
theorem twin_step {a b a' b' : World} (ha : Inv a) (hb : Inv b) (t : Twin a b) {opa opb : Op}
    (hop : opa.forget = opb.forget) (hwt : opa.wt a.n)
    (ea : step a opa = .ok a') (eb : step b opb = .ok b') :
    Twin a' b' ∧ issued a opa = issued b opb := by
  obtain ⟨h1, h2⟩ := lockstep_step ha hb t.abs hop ea eb
  have hwtb : opb.wt b.n := by rw [← t.n]; exact wt_forget hop hwt
  have ra := step_refinesI ha hwt ea
  have rb := step_refinesI hb hwtb eb
  rw [← h2, ← t.n] at rb
  exact ⟨⟨by rw [step_n ha ea, step_n hb eb, t.n], h1, refStepI_eqv t.map hop ra rb⟩, h2⟩

/-- **Lock step, every history**: the same identifiers are issued and the worlds keep holding the
same map. -/
theorem twin_run : ∀ (opsa opsb : List Op), opsa.map Op.forget = opsb.map Op.forget →
    ∀ {a b a' b' : World} {ia ib : List Ident}, Inv a → Inv b → Twin a b → (∀ op ∈ opsa, op.wt a.n) →
      runIssued a opsa = .ok (a', ia) → runIssued b opsb = .ok (b', ib) →
      ia = ib ∧ Twin a' b' := by
  intro opsa
  induction opsa with
  | nil =>
    intro opsb hops a b a' b' ia ib _ _ t _ ea eb
    cases opsb with
    | cons _ _ => simp at hops
    | nil =>
      simp only [runIssued, Out.ok.injEq, Prod.mk.injEq] at ea eb
      obtain ⟨rfl, rfl⟩ := ea
      obtain ⟨rfl, rfl⟩ := eb
      exact ⟨rfl, t⟩
  | cons opa opsa ih =>
    intro opsb hops a b a' b' ia ib ha hb t hwt ea eb
    cases opsb with
    | nil => simp at hops
    | cons opb opsb =>
      simp only [List.map_cons, List.cons.injEq] at hops
      simp only [runIssued] at ea eb
      cases sa : step a opa with
      | ub x => simp [sa] at ea
      | ok a1 =>
        cases sb : step b opb with
        | ub x => simp [sb] at eb
        | ok b1 =>
          simp only [sa, sb] at ea eb
          cases ra : runIssued a1 opsa with
          | ub x => simp [ra] at ea
          | ok pa =>
            cases rb : runIssued b1 opsb with
            | ub x => simp [rb] at eb
            | ok pb =>
              obtain ⟨a2, i2⟩ := pa
              obtain ⟨b2, j2⟩ := pb
              simp only [ra, rb, Out.ok.injEq, Prod.mk.injEq] at ea eb
              obtain ⟨rfl, rfl⟩ := ea
              obtain ⟨rfl, rfl⟩ := eb
              obtain ⟨t1, h2⟩ := twin_step ha hb t hops.1 (hwt opa (by simp)) sa sb
              have hn1 : a1.n = a.n := step_n ha sa
              obtain ⟨h3, t2⟩ := ih opsb hops.2 (step_inv ha sa) (step_inv hb sb) t1
                (fun op ho => by rw [hn1]; exact hwt op (by simp [ho])) ra rb
              exact ⟨by rw [h2, h3], t2⟩

/-- Twins hold the same number of entities. -/
theorem twin_len {a b : World} (ha : Inv a) (hb : Inv b) (t : Twin a b) : a.len = b.len := by
  obtain ⟨na, la, ma⟩ := len_counts_entities ha
  obtain ⟨nb, lb, mb⟩ := len_counts_entities hb
  rw [← la, ← lb]
  apply List.Perm.length_eq
  rw [List.perm_ext_iff_of_nodup na nb]
  intro id
  rw [ma id, mb id]
  have := t.map id
  cases hx : a.entity id <;> cases hy : b.entity id <;> simp [hx, hy, entEqv] at this ⊢

theorem entEqv_symm' (x y : Option (List Val)) : entEqv x y = entEqv y x := by
  cases x <;> cases y <;> simp [entEqv, rowEqv_symm]

/-- The lock-step relation is symmetric. -/
theorem Twin.symm {a b : World} (t : Twin a b) : Twin b a :=
  ⟨t.n.symm, t.abs.symm, fun id => by rw [entEqv_symm']; exact t.map id⟩

/-! ### twins answer every query alike -/

theorem maskOf_eqv (n : Nat) {x y : List Val} (h : rowEqv x y = true) : Spec.maskOf n x = Spec.maskOf n y := by
  unfold Spec.maskOf
  apply List.map_congr_left
  intro c _
  exact rowEqv_any_ty c x y h

/-- **Twins answer every query alike** (up to iteration order and `PartialEq` of the values): every
row of one world's result is the view of an entity of which the other world's result holds the
view too, the entity's values being equivalent. -/
theorem twin_query {a b : World} (ha : Inv a) (hb : Inv b) (t : Twin a b) (vs : List View) (f : Filter) :
    ∃ ra rb, a.query vs f = .ok ra ∧ b.query vs f = .ok rb ∧
      ∀ row ∈ ra, ∃ id vals vals', a.entity id = some vals ∧ b.entity id = some vals' ∧
        rowEqv vals vals' = true ∧ row = vs.map (Spec.cellOf ⟨id, vals⟩) ∧
        vs.map (Spec.cellOf ⟨id, vals'⟩) ∈ rb := by
  refine ⟨_, _, query_eq_spec ha vs f, query_eq_spec hb vs f, ?_⟩
  intro row hrow
  obtain ⟨ra, hqa, hca⟩ := C03_rows_characterised ha vs f row
  rw [query_eq_spec ha vs f] at hqa
  simp only [Out.ok.injEq] at hqa
  subst hqa
  obtain ⟨id, vals, he, hm, rfl⟩ := hca.mp hrow
  have hmap := t.map id
  rw [he] at hmap
  cases hb' : b.entity id with
  | none => simp [hb', entEqv] at hmap
  | some vals' =>
    rw [hb'] at hmap
    have heqv : rowEqv vals vals' = true := hmap
    refine ⟨id, vals, vals', he, hb', heqv, rfl, ?_⟩
    obtain ⟨rb, hqb, hcb⟩ := C03_rows_characterised hb vs f (vs.map (Spec.cellOf ⟨id, vals'⟩))
    rw [query_eq_spec hb vs f] at hqb
    simp only [Out.ok.injEq] at hqb
    subst hqb
    apply hcb.mpr
    refine ⟨id, vals', hb', ?_, rfl⟩
    rw [← t.n, ← maskOf_eqv a.n heqv]
    exact hm

end Brood
