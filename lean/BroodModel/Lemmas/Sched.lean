/-
  Lemmas about the stager (BroodModel.Sched) over the *generated* tables.
-/
import BroodModel.SchedSpec
import BroodModel.Generated.Tables

set_option linter.unusedSimpArgs false
set_option linter.unusedVariables false

namespace Brood
open Static Generated

/-! ### The generated tables say what the specification says -/

/-- Every (new kind, old claim) pair has an impl, and it cuts exactly when one side is mutable. -/
theorem verifier_table_exact (new : VK) (old : Old) (h : new ≠ .ident)
    (ho : old ≠ .claimed .ident) :
    lookupV verifierTable new old = some (if conflictKinds new old then .cut else .next) := by
  cases new <;> cases old <;> first | (exfalso; exact h rfl) | skip
  all_goals first | rfl | (rename_i k; cases k <;> first | rfl | (exfalso; exact ho rfl))

/-- The merger appends only when both decisions append. -/
theorem merger_table_exact (a b : D2) :
    lookupM mergerTable a b = some (if a = .append ∧ b = .append then .append else .cut) := by
  cases a <;> cases b <;> rfl

/-- `Claim::try_merge` succeeds exactly when there is no write/any overlap. -/
theorem try_merge_exact (a b : Cl) :
    (tryMergeCl claimTryMerge a b).isSome = !(a.conflicts b) := by
  cases a <;> cases b <;> rfl

/-- A successful merge remembers the stronger claim. -/
theorem try_merge_result (a b c : Cl) (h : tryMergeCl claimTryMerge a b = some c) :
    (c = .mutable ↔ (a = .mutable ∨ b = .mutable)) ∧ (c = .none ↔ (a = .none ∧ b = .none)) := by
  cases a <;> cases b <;> simp [tryMergeCl, lookupCl, claimTryMerge] at h <;> subst h <;> simp

/-! ### Decisions, characterised -/

/-- A claim list never mentions `ident` (`viewVK` drops it). -/
def NoIdent (l : List (Nat × VK)) : Prop := ∀ p ∈ l, p.2 ≠ .ident

theorem Task.claims_noIdent (t : Task) : NoIdent t.claims := by
  intro p hp
  simp only [Task.claims, List.mem_filterMap] at hp
  obtain ⟨v, _, hv⟩ := hp
  cases v <;> simp [viewVK] at hv <;> (subst hv; simp)

theorem resVK_noIdent (l : List (Nat × Bool)) : NoIdent (l.map resVK) := by
  intro p hp
  obtain ⟨q, _, rfl⟩ := List.mem_map.mp hp
  simp only [resVK]
  cases q.2 <;> simp

theorem oldOf_noIdent {u : List (Nat × VK)} (hu : NoIdent u) (c : Nat) : oldOf u c ≠ .claimed .ident := by
  unfold oldOf
  cases h : u.find? (fun p => p.1 == c) with
  | none => simp
  | some p =>
    have := List.mem_of_find?_eq_some h
    simp
    exact hu p this

theorem verify_eq {u new : List (Nat × VK)} (hu : NoIdent u) (hn : NoIdent new) :
    verify verifierTable u new = if claimsConflict u new then .cut else .append := by
  induction new with
  | nil => simp [verify, claimsConflict]
  | cons p rest ih =>
    obtain ⟨c, k⟩ := p
    have hk : k ≠ .ident := hn (c, k) (by simp)
    have hrest : NoIdent rest := fun q hq => hn q (by simp [hq])
    simp only [verify, verifier_table_exact k (oldOf u c) hk (oldOf_noIdent hu c)]
    by_cases hc : conflictKinds k (oldOf u c)
    · simp [hc, claimsConflict]
    · have hcf : conflictKinds k (oldOf u c) = false := by simpa using hc
      rw [hcf, ih hrest]
      simp only [claimsConflict, List.any_cons, hcf, Bool.false_or]
      rfl

theorem claimsDecision_eq {new : List (Nat × VK)} (hn : NoIdent new) (us : List (List (Nat × VK)))
    (hus : ∀ u ∈ us, NoIdent u) :
    claimsDecision verifierTable new us = if us.any (fun u => claimsConflict u new) then .cut else .append := by
  induction us with
  | nil => simp [claimsDecision]
  | cons u us ih =>
    have hu := hus u (by simp)
    have ih' := ih (fun v hv => hus v (by simp [hv]))
    simp only [claimsDecision, verify_eq hu hn]
    by_cases hc : claimsConflict u new
    · simp [hc]
    · simp [hc, ih']

/-- **The stager's decision is exactly the specification**: cut iff the new task conflicts, on a
component or a resource, with some task already in the stage. -/
theorem stageDecision_eq (stage : List Task) (t : Task) :
    stageDecision verifierTable mergerTable stage t = if stageConflict stage t then .cut else .append := by
  unfold stageDecision stageConflict
  rw [claimsDecision_eq (Task.claims_noIdent t) _ (by
        intro u hu; simp [List.mem_map] at hu; obtain ⟨a, _, rfl⟩ := hu; exact Task.claims_noIdent a),
      claimsDecision_eq (resVK_noIdent t.res) _ (by
        intro u hu; simp [List.mem_map] at hu; obtain ⟨a, _, rfl⟩ := hu; exact resVK_noIdent a.res)]
  simp only [List.any_map, Function.comp_def]
  by_cases h1 : stage.any (fun u => claimsConflict u.claims t.claims) <;>
  by_cases h2 : stage.any (fun u => claimsConflict (u.res.map resVK) (t.res.map resVK)) <;>
  simp [h1, h2, merger_table_exact]

/-! ### The greedy stager -/

theorem stagesAux_flatten (tbl : List VRow) (mt : List (D2 × D2 × D2)) (ts cur : List Task) :
    (stagesAux tbl mt ts cur).flatten = cur ++ ts := by
  induction ts generalizing cur with
  | nil =>
    unfold stagesAux
    by_cases h : cur.isEmpty
    · simp [h]; simpa using h
    · simp [h]
  | cons t ts ih =>
    unfold stagesAux
    by_cases h : cur.isEmpty
    · have : cur = [] := by simpa using h
      subst this; simp [ih]
    · simp only [h]
      cases stageDecision tbl mt cur t with
      | append => simp [ih]
      | cut => simp [ih]

/-- Every task is staged exactly once, in the order written. -/
theorem stages_flatten (tbl : List VRow) (mt : List (D2 × D2 × D2)) (ts : List Task) :
    (stages tbl mt ts).flatten = ts := by
  simp [stages, stagesAux_flatten]

/-- No group is empty. -/
theorem stagesAux_nonempty (tbl : List VRow) (mt : List (D2 × D2 × D2)) (ts cur : List Task) :
    ∀ g ∈ stagesAux tbl mt ts cur, g ≠ [] := by
  induction ts generalizing cur with
  | nil =>
    unfold stagesAux
    by_cases h : cur.isEmpty
    · simp [h]
    · simp [h]; simpa using h
  | cons t ts ih =>
    unfold stagesAux
    by_cases h : cur.isEmpty
    · simp only [h]; exact ih [t]
    · simp only [h]
      cases stageDecision tbl mt cur t with
      | append => exact ih _
      | cut =>
        intro g hg
        simp at hg
        rcases hg with rfl | hg
        · simpa using h
        · exact ih [t] g hg

/-- A stage is *compatible* when every task is conflict-free against all tasks before it. -/
def Compatible (ts : List Task) : Prop :=
  ∀ i, ∀ h : i < ts.length, stageConflict (ts.take i) ts[i] = false

theorem compatible_append {cur : List Task} {t : Task} (hc : Compatible cur)
    (ht : stageConflict cur t = false) : Compatible (cur ++ [t]) := by
  intro i hi
  by_cases hlt : i < cur.length
  · have h1 : (cur ++ [t]).take i = cur.take i := by
      rw [List.take_append_of_le_length (Nat.le_of_lt hlt)]
    have h2 : (cur ++ [t])[i] = cur[i] := by simp [List.getElem_append_left hlt]
    rw [h1, h2]
    exact hc i hlt
  · have : i = cur.length := by simp at hi; omega
    subst this
    simp [ht]

theorem compatible_singleton (t : Task) : Compatible [t] := by
  intro i hi
  have : i = 0 := by simp at hi; omega
  subst this
  simp [stageConflict]

/-- Every group the stager produces is compatible (C08, static part), provided the group it is
extending is. -/
theorem stagesAux_compatible (ts cur : List Task) (hc : Compatible cur) :
    ∀ g ∈ stagesAux verifierTable mergerTable ts cur, Compatible g := by
  induction ts generalizing cur with
  | nil =>
    unfold stagesAux
    by_cases h : cur.isEmpty
    · simp [h]
    · simp [h]; exact hc
  | cons t ts ih =>
    unfold stagesAux
    by_cases h : cur.isEmpty
    · simp only [h]; exact ih [t] (compatible_singleton t)
    · simp only [h]
      rw [stageDecision_eq]
      by_cases hcf : stageConflict cur t
      · simp only [hcf]
        intro g hg
        simp at hg
        rcases hg with rfl | hg
        · exact hc
        · exact ih [t] (compatible_singleton t) g hg
      · simp only [hcf]
        exact ih (cur ++ [t]) (compatible_append hc (by simpa using hcf))

/-- Boundaries between consecutive groups are justified: the first task of the next group
conflicts with some task of the previous group (C12: nothing is serialised without a conflict). -/
def Justified : List (List Task) → Prop
  | g1 :: g2 :: rest =>
    (∃ t ts', g2 = t :: ts' ∧ stageConflict g1 t = true) ∧ Justified (g2 :: rest)
  | _ => True

theorem stagesAux_head (ts cur : List Task) (hne : cur ≠ []) :
    ∃ g rest, stagesAux verifierTable mergerTable ts cur = g :: rest ∧ ∃ more, g = cur ++ more := by
  induction ts generalizing cur with
  | nil =>
    unfold stagesAux
    have : cur.isEmpty = false := by cases cur <;> simp at hne ⊢
    simp [this]
  | cons t ts ih =>
    unfold stagesAux
    have hce : cur.isEmpty = false := by cases cur <;> simp at hne ⊢
    simp only [hce]
    cases stageDecision verifierTable mergerTable cur t with
    | append =>
      obtain ⟨g, rest, e, more, hg⟩ := ih (cur ++ [t]) (by simp)
      exact ⟨g, rest, e, [t] ++ more, by simp [hg]⟩
    | cut => exact ⟨cur, _, rfl, [], by simp⟩

theorem stagesAux_justified (ts cur : List Task) :
    Justified (stagesAux verifierTable mergerTable ts cur) := by
  induction ts generalizing cur with
  | nil =>
    unfold stagesAux
    by_cases h : cur.isEmpty <;> simp [h, Justified]
  | cons t ts ih =>
    unfold stagesAux
    by_cases h : cur.isEmpty
    · simp only [h]; exact ih [t]
    · simp only [h]
      rw [stageDecision_eq]
      by_cases hcf : stageConflict cur t
      · simp only [hcf]
        obtain ⟨g, rest, e, more, hg⟩ := stagesAux_head ts [t] (by simp)
        rw [e]
        refine ⟨⟨t, more, by simpa using hg, hcf⟩, ?_⟩
        rw [← e]
        exact ih [t]
      · simp only [hcf]
        exact ih (cur ++ [t])

end Brood
