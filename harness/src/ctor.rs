//! C18: constructors on registries with a repeated type; `Batch::new` on every combination of
//! column lengths.
use crate::comps::*;
use brood::entities::{Batch, Null};

type C0 = S<0>;
type C1 = S<1>;
type C2 = S<2>;
type C3 = S<3>;

fn col<T: Comp>(n: usize) -> Vec<T> {
    (0..n).map(|i| T::mk(i as u64 + 1)).collect()
}

fn batch(lens: &[usize]) -> bool {
    let l = lens.to_vec();
    std::panic::catch_unwind(move || match l.len() {
        1 => drop(Batch::new((col::<C0>(l[0]), Null))),
        2 => drop(Batch::new((col::<C0>(l[0]), (col::<C1>(l[1]), Null)))),
        3 => drop(Batch::new((col::<C0>(l[0]), (col::<C1>(l[1]), (col::<C2>(l[2]), Null))))),
        _ => drop(Batch::new((col::<C0>(l[0]), (col::<C1>(l[1]), (col::<C2>(l[2]), (col::<C3>(l[3]), Null)))))),
    })
    .is_err()
}

pub fn run() {
    println!("case ctor");
    let names = ["new", "with_resources", "default", "deserialize_cols", "deserialize_rows"];
    for (tys, f) in crate::gen_ctor::ctors() {
        for which in 0..5u8 {
            let panicked = f(which);
            let t: Vec<String> = tys.iter().map(|t| t.to_string()).collect();
            println!("ctor {} {} {}", names[which as usize], if t.is_empty() { "-".to_string() } else { t.join(",") }, if panicked { "panicked" } else { "ok" });
        }
    }
    for k in 1..=4usize {
        let mut lens = vec![0usize; k];
        loop {
            let panicked = batch(&lens);
            let t: Vec<String> = lens.iter().map(|t| t.to_string()).collect();
            println!("batch {} {}", t.join(","), if panicked { "panicked" } else { "ok" });
            let mut i = 0;
            while i < k {
                lens[i] += 1;
                if lens[i] <= 3 { break; }
                lens[i] = 0;
                i += 1;
            }
            if i == k { break; }
        }
    }
}
